# C05 Keep-alive independence: frame contract of Request::clear
import os, sys
sys.path.insert(0, os.path.dirname(os.path.abspath(__file__)))
import importlib.util
spec = importlib.util.spec_from_file_location("c02", os.path.join(os.path.dirname(os.path.abspath(__file__)), "C02.py"))
c02 = importlib.util.module_from_spec(spec); spec.loader.exec_module(c02)
MODULES, CONTRACTS = c02.MODULES, []
QUICK = {0, 1, 2, 4, 8, 16, 3, 12, 21, 31}
HARNESSES = c02.CLEAR
for k, h in enumerate(HARNESSES):
    h.tier = "quick" if (k in QUICK or h.name == "c05_clear_full_buffer_contract") else "thorough"
TRUSTED = ["Session::manage (clear -> read -> handle -> send loop, Connection: close => break) is written against TcpStream and is read, not verified"]
ASSUMPTIONS = ["whole-read non-interference (a cleared request parses like a fresh one) is not under a discharged contract; it rests on clear()'s frame contract plus Request::read reading only the bytes of the current read"]
