# C07 Typed extraction
import os, sys
sys.path.insert(0, os.path.join(os.path.dirname(os.path.abspath(__file__)), "..", "lib"))
from vf import H, C, M

FR = "ohkami/src/request/from_request.rs"
MODULES = [M(FR, "harness/C07/from_request.rs")]
CONTRACTS = []
HARNESSES = []
for t, n, tier, to in [("u8", 6, "quick", 600), ("i8", 6, "quick", 600), ("u16", 8, "quick", 600), ("i16", 8, "quick", 600),
                       ("u32", 13, "thorough", 1500), ("i32", 13, "thorough", 1500), ("u64", 23, "thorough", 2400), ("i64", 16, "thorough", 2400),
                       ("usize", 23, "thorough", 2400), ("isize", 16, "thorough", 2400)]:
    for k in range(n):
        HARNESSES.append(H(f"c07_param_{t}_contract_k{k:02d}", crate="ohkami", tier=tier, timeout=to, strength="bounded",
                           functions=[f"<{t} as request::from_request::FromParam>::from_param"],
                           clauses=["Ok(v) iff the WHOLE string is ['+'|'-']? digit+ in range of the type (reference grammar = Rust FromStr), and then v is that value", "Err otherwise; no overflow, no panic"],
                           bound=f"all ASCII strings of length {k} (one harness per length 0..={n - 1}; i64/isize stop at 15 bytes: longer ones gave no answer in 40 min)"))
HARNESSES += [
    H("c07_param_str_contract", crate="ohkami", tier="quick", timeout=600, strength="bounded",
      functions=["<&str as FromParam>::from_param", "<Cow<str> as FromParam>::from_param", "<String as FromParam>::from_param"],
      clauses=["&str: borrowed segment passed through, decoded (owned) segment refused", "Cow / String: equal content"], bound="3-byte ASCII strings"),
    H("c07_option_contract", crate="ohkami", tier="quick", timeout=600, strength="bounded",
      functions=["<Option<FR> as request::from_request::FromRequest>::from_request"],
      clauses=["None only when the inner extractor reports absence", "present and valid => Some(value)", "present but invalid => Some(Err) (error response, handler does not run)"],
      bound="finite case split over the three outcomes of the inner extractor"),
] + [H(f"c07_body_gate_contract_k{k:02d}", crate="ohkami", tier="quick", timeout=900, strength="bounded",
       functions=["<B: FromBody as request::from_request::FromRequest>::from_request (the body media-type gate)"],
       clauses=["the extractor's decoder runs, on exactly the payload bytes, iff the Content-Type starts with the extractor's WHOLE media type (parameters may follow) and a payload is present",
                "otherwise the item is absent (None): a Content-Type that is shorter than, a prefix of, or different from the media type never reaches the decoder"],
       bound=("no Content-Type header" if k == 14 else f"Content-Type value of {k % 7} symbolic printable ASCII bytes, payload {'present (1 symbolic byte)' if k // 7 == 0 else 'absent'}") + "; probe extractor with media type `a/bc`") for k in range(15)]
TRUSTED = ["core::num FromStr is executed symbolically (it is what the repaired code calls), the reference grammar in harness/C07 is independent of it",
           "alloc::fmt::format stubbed (error message text)"]
ASSUMPTIONS = ["param strings restricted to ASCII (a non-ASCII UTF-8 string is never an integer; percent-decoding is checked in C08)",
               "the ~20 macro-generated IntoHandler impls ('handler runs only if all extractions are Ok') and the body/query decoders behind FromBody are not under contract here (decoders: C08-C10); the media-type gate is under contract through a probe extractor, core::str::from_utf8 replaced by an ASCII-only assumed contract there"]
