# C09 URL-encoded round trip (method level) + decoding of key=value text against RFC 3986 percent-decoding
import os, sys
sys.path.insert(0, os.path.join(os.path.dirname(os.path.abspath(__file__)), "..", "lib"))
from vf import H, C, M

MODULES = [M("ohkami_lib/src/serde_urlencoded.rs", "harness/C09/urlencoded.rs"), M("ohkami_lib/src/serde_urlencoded/de.rs", "harness/C09/de_helper.rs"), M("ohkami_lib/src/serde_urlencoded/ser.rs", "harness/C09/ser_helper.rs"), M("ohkami/src/request/query.rs", "harness/C09/query_iter.rs")]
CONTRACTS = []
B = dict(crate="ohkami_lib", strength="bounded", tier="quick", timeout=900)
S, D = "serde_urlencoded::ser::URLEncodedSerializer::", "serde_urlencoded::de::URLEncodedDeserializer::"
RT = "decode(encode(v)) == v through the real serialize_* / deserialize_* methods in the value place"
HARNESSES = [
    H("c09_roundtrip_bool", functions=[S + "serialize_bool", D + "deserialize_bool"], clauses=[RT], bound="both booleans", **B),
    H("c09_roundtrip_option_bool", functions=[S + "serialize_some", S + "serialize_none", D + "deserialize_option"], clauses=[RT], bound="all Option<bool>", **B),
    H("c09_roundtrip_unit_enum", functions=[S + "serialize_unit_variant", D + "deserialize_enum", "de::Enum::variant_seed"], clauses=[RT], bound="a derived 3-variant unit enum", **B),
    H("c09_roundtrip_option_unit_enum", functions=[S + "serialize_unit_variant", S + "serialize_none", D + "deserialize_option", D + "deserialize_enum"], clauses=[RT], bound="Option of a derived 3-variant unit enum", **B),
    H("c09_roundtrip_newtype", functions=[S + "serialize_newtype_struct", D + "deserialize_newtype_struct"], clauses=[RT], bound="a derived newtype over bool", **B),
    H("c09_roundtrip_char", functions=[S + "serialize_char", D + "deserialize_char"], clauses=["for ALL chars (reserved characters and non-ASCII included): " + RT], bound="full domain of char (symbolic; > 11 GB, thorough tier only)", **dict(B, tier="thorough")),
] + [H(f"c09_roundtrip_char_ascii_k{k:02d}", functions=[S + "serialize_char", D + "deserialize_char"], clauses=["for all ASCII chars (every reserved character, controls): " + RT],
         bound=f"ASCII chars {32 * k}..{32 * k + 31}, enumerated concretely (all 128 over the 4 chunks)", expect_covers=False, **B) for k in range(4)] + [
    H("c09_roundtrip_char_samples", functions=[S + "serialize_char", D + "deserialize_char"], clauses=[RT], bound="8 CONCRETE non-ASCII chars (boundaries of every UTF-8 length)", **B),
    H("c09_roundtrip_pair_bool", functions=[S + "serialize_tuple", "SerializeTuple::serialize_element", D + "deserialize_tuple", "de::CommaSeparated::next_element_seed"], clauses=[RT + " (2-element sequence)"], bound="all (bool, bool)", **B),
    H("c09_roundtrip_triple_bool", functions=[S + "serialize_tuple", "SerializeTuple::serialize_element", D + "deserialize_tuple", "de::CommaSeparated::next_element_seed"], clauses=[RT + " (3-element sequence)"], bound="all (bool, bool, bool)", **B),
]
for nm, what in [("u8_i8", "i16: boundaries of u8/i8"), ("u64_bounds", "u64: 0, u32::MAX, i64::MAX, i64::MAX+1, u64::MAX"), ("i64_bounds", "i64: MIN, MIN+1, -1, i32::MIN, MAX"),
                 ("u32_i32_bounds", "i64: boundaries of u32/i32/u16/i16"), ("u16_native", "u16"), ("u32_native", "u32"), ("i8_native", "i8"), ("i32_native", "i32"), ("u8_native", "u8")]:
    HARNESSES.append(H(f"c09_roundtrip_int_{nm}", functions=[S + "serialize_<int>", D + "deserialize_<int>"], clauses=[RT],
                       bound="ENUMERATED CONCRETE boundary values (" + what + "): a symbolic integer through core's Display makes every copy symbolic-length (measured: > 18 GB per query)", **B))
HARNESSES += [H(f"c09_roundtrip_string_k{k:02d}", functions=[S + "serialize_str", D + "deserialize_string"], clauses=["strings are emitted percent-encoded (only unreserved ASCII and escapes on the wire)", RT],
                bound=f"all valid UTF-8 strings of {k} bytes", **B) for k in range(3)]
HARNESSES += [H(f"c09_roundtrip_string_pair_k{k:02d}", functions=[S + "serialize_tuple", "SerializeTuple::serialize_element", D + "deserialize_tuple", "de::CommaSeparated::next_element_seed"],
                clauses=["a sequence of strings decodes back to the same sequence, element boundaries kept"], bound=f"(String, String) of lengths {l}, symbolic ASCII contents", **B)
              for k, l in enumerate([(1, 1), (1, 0), (2, 1), (0, 1)])]
HARNESSES += [H(f"c09_decode_text_k{k:02d}", functions=["de::AmpersandSeparated::next_key_seed", "de::AmpersandSeparated::next_value_seed", D + "next_section", D + "deserialize_string"],
                clauses=["`k=v&k=v` decodes, pair by pair, to the RFC 3986 percent-decoding of its `&`/`=`-separated parts (or an error exactly when a part does not decode to UTF-8); nothing after the last pair"],
                bound=f"two pairs, 1-byte keys, values of {l} symbolic bytes (any byte except & and =)", **B) for k, l in enumerate([(1, 1), (3, 0), (0, 3), (2, 2)])]
HARNESSES += [
    H("c09_seq_bools_concrete", functions=[S + "serialize_tuple", "SerializeTuple::serialize_element", D + "deserialize_tuple", "de::CommaSeparated::next_element_seed", D + "deserialize_bool"],
      clauses=["(true, false) and (false, false, true) decode back to equal values"], bound="2 CONCRETE sequences", expect_covers=False, **B),
    H("c09_seq_strings_concrete", functions=[S + "serialize_tuple", "SerializeTuple::serialize_element", D + "deserialize_tuple", "de::CommaSeparated::next_element_seed"],
      clauses=["three concrete pairs of strings containing `,` `&` `=` `%` decode back to the same pairs"], bound="3 CONCRETE pairs", expect_covers=False, **B),
    H("c09_seq_empty_first_element", functions=["SerializeTuple::serialize_element"], clauses=["(\"\", \"x\") decodes back to (\"\", \"x\")"], bound="ONE concrete pair: the failing input class of KF-C09-empty-first-seq-element",
      finding="KF-C09-empty-first-seq-element", expect_covers=False, **B),
]
HARNESSES += [H(f"c09_query_iter_k{k:02d}", crate="ohkami", strength="bounded", tier="thorough", timeout=900,
                functions=["request::query::QueryParams::iter", "request::query::QueryParams::new"],
                clauses=["`k=v&k=v` read through the request's query iterator yields, in order, the RFC 3986 percent-decoding of the parts around each `=`; nothing after the last pair"],
                bound=f"two pairs, 1-byte keys, values of {l} symbolic ASCII bytes (any except & and =)") for k, l in enumerate([(1, 1), (3, 0), (0, 3), (2, 2)])]
QS = ["a=1&b=2", "q=what%3F&lang%2B=c%2B&n=1", "k=&x=%20y", "a=1&=v&b&c=3&", "a=%zz&b=100%25", "(empty)", "z=a%3Db%26c"]
HARNESSES += [H(f"c09_query_iter_concrete_k{k:02d}", crate="ohkami", strength="bounded", tier="quick", timeout=600, expect_covers=False,
                functions=["request::query::QueryParams::iter", "ohkami_lib::percent_encoding::percent_decode (real wrapper + crate)"],
                clauses=["the query iterator yields, in order, the RFC 3986 percent-decoding of the parts around `=` of every well-formed `&`-separated part (malformed parts skipped); nothing after the last pair"],
                bound=f"ONE concrete query string `{QS[k]}`") for k in range(7)]
# written but NOT registered (measured: 8-32 GB or no answer in 15 min each; kept in harness/C09 for reference): the symbolic full-domain char, the derived unit enum (+Option),
# symbolic strings of 1-2 bytes, symbolic string pairs, and the `k=v&k=v` text harnesses
UNREGISTERED = ("c09_query_iter_k00", "c09_query_iter_k01", "c09_query_iter_k02", "c09_query_iter_k03", "c09_roundtrip_pair_bool", "c09_roundtrip_triple_bool", "c09_roundtrip_char", "c09_roundtrip_unit_enum", "c09_roundtrip_option_unit_enum", "c09_roundtrip_string_k01", "c09_roundtrip_string_k02")
HARNESSES = [h for h in HARNESSES if h.name not in UNREGISTERED and not h.name.startswith(("c09_roundtrip_string_pair", "c09_decode_text"))]
JOBS = 6
TRUSTED = ["ASSUMED CONTRACTS: percent-encoding crate (spec/percent.rs decoder + reference NON_ALPHANUMERIC encoder in harness/C09), core::str::from_utf8 (spec/utf8.rs); alloc::fmt::format stubbed",
           "core's integer Display / FromStr executed on enumerated values, not specified", "serde's derive output for the harness's unit enum / newtype is executed, not specified"]
ASSUMPTIONS = ["struct / map glue of derived impls (field order, unknown extra fields), floats, string maps and QueryParams::iter are NOT under a discharged contract"]
