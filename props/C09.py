# C09 URL-encoded round trip (method level)
import os, sys
sys.path.insert(0, os.path.join(os.path.dirname(os.path.abspath(__file__)), "..", "lib"))
from vf import H, C, M

MODULES = [M("ohkami_lib/src/serde_urlencoded.rs", "harness/C09/urlencoded.rs"), M("ohkami_lib/src/serde_urlencoded/de.rs", "harness/C09/de_helper.rs")]
CONTRACTS = []
B = dict(crate="ohkami_lib", strength="bounded", tier="quick", timeout=900)
S, D = "serde_urlencoded::ser::URLEncodedSerializer::", "serde_urlencoded::de::URLEncodedDeserializer::"
HARNESSES = [
    H("c09_roundtrip_bool", functions=[S + "serialize_bool", D + "deserialize_bool"], clauses=["for both booleans: decode(encode(v)) == v"], bound="full domain of the type; one value place", **B),
    H("c09_roundtrip_u8", functions=[S + "serialize_u8", D + "deserialize_u8"], clauses=["for all u8: decode(encode(v)) == v"], bound="full domain of the type", **B),
    H("c09_roundtrip_i16", functions=[S + "serialize_i16", D + "deserialize_i16"], clauses=["for all i16: decode(encode(v)) == v"], bound="full domain of the type", **B),
    H("c09_roundtrip_option_u8", functions=[S + "serialize_some", S + "serialize_none", D + "deserialize_option"], clauses=["for all Option<u8>: decode(encode(v)) == v"], bound="full domain of the type", **B),
    H("c09_roundtrip_char", functions=[S + "serialize_char", D + "deserialize_char"], clauses=["for all chars (reserved characters and non-ASCII included): decode(encode(v)) == v"], bound="full domain of char", **B),
    H("c09_roundtrip_pair_u8", functions=[S + "serialize_tuple", "SerializeTuple::serialize_element", D + "deserialize_tuple", "CommaSeparated::next_element_seed"], clauses=["for all (u8, u8): decode(encode(v)) == v (sequences)"], bound="2-element sequences of u8", **B),
] + [H(f"c09_roundtrip_string_k{k:02d}", functions=[S + "serialize_str", D + "deserialize_string"], clauses=["strings are emitted percent-encoded (only unreserved ASCII and escapes on the wire)", "decode(encode(s)) == s"],
       bound=f"all valid UTF-8 strings of {k} bytes", **B) for k in range(3)]
TRUSTED = ["ASSUMED CONTRACTS: percent-encoding crate (spec/percent.rs decoder + reference NON_ALPHANUMERIC encoder in harness/C09), core::str::from_utf8 (spec/utf8.rs); alloc::fmt::format stubbed",
           "core's integer Display / FromStr executed, not specified"]
ASSUMPTIONS = ["struct / map glue (derived impls), unit enums, floats, 32/64-bit integers, string maps, decode-vs-RFC 3986 of arbitrary `k=v&..` text and QueryParams::iter are NOT under a discharged contract"]
