# C17 Server-sent events: chunk framing of Response::send (Content::Stream)
import os, sys
sys.path.insert(0, os.path.join(os.path.dirname(os.path.abspath(__file__)), "..", "lib"))
from vf import H, C, M

MODULES = [M("ohkami/src/response/mod.rs", "harness/C17/send.rs")]
CONTRACTS = []
SHAPES = [(1, 0, 0), (1, 1, 0), (1, 2, 0), (1, 3, 0), (2, 1, 1), (2, 0, 1), (2, 2, 0)]
QUICK = {0, 1, 2, 4, 5}
HARNESSES = [H(f"c17_sse_framing_contract_k{k:02d}", crate="ohkami", strength="bounded", timeout=1200, unwindset={"memchr_naive": 5, "memchr_aligned": 3, "memcmp": 3, "CharSearcher": 6}, tier="quick" if k in QUICK else "thorough",
               functions=["Response::send (Content::Stream branch: the per-message framing block, extracted verbatim)", "ohkami_lib::num::hexized_bytes"],
               clauses=["the bytes after the head are (hex size CRLF data CRLF)* 0 CRLF CRLF",
                        "the de-chunked content, read by the WHATWG event-stream algorithm, is exactly the produced messages in order with CRLF/CR normalised to LF",
                        "no event/id/retry field, no comment or unknown-field line, nothing left undispatched"],
               bound=f"{n} message(s) of {l0}" + (f" and {l1}" if n > 1 else "") + " symbolic ASCII byte(s); producer yields one message per poll")
              for k, (n, l0, l1) in enumerate(SHAPES)]
# the symbolic shapes are kept in the harness file but NOT registered: each needs more than 20 min under CBMC (str::split's CharSearcher on symbolic bytes)
SYMBOLIC = HARNESSES
SEQS = ['[""]', '["a"]', '["a\\nb"]', '["\\n"]', '["ab\\n"]', '["a", "b"]', '["", "x"]', '["data: x"]', '["a\\rb"]', '["a\\r\\nb"]', '["\\r"]', '["x\\revent: y"]', '["abcdefg"] (event size 0xf)', '["abcdefgh", "z"] (event size 0x10, then another message)', '["abcdefghi"] (event size 0x11)']
HARNESSES = [H(f"c17_sse_framing_concrete_k{k:02d}", crate="ohkami", strength="bounded", timeout=900, tier="quick", expect_covers=False,
               unwindset={"memchr_naive": 14, "memchr_aligned": 3, "memcmp": 4, "CharSearcher": 8},
               functions=SYMBOLIC[0].functions, clauses=SYMBOLIC[0].clauses, bound="ONE concrete message sequence: " + SEQS[k]) for k in range(15) if k not in (3, 4, 10)]   # k03 `\\n` and k04 `ab\\n` (trailing LF): and k10 `\\r` (messages ENDING in a line break: an empty last line): no answer in 15 min, not registered
TRUSTED = ["the reference chunked reader / event-stream interpreter in harness/C17/send.rs (written from RFC 9112 §7.1 and WHATWG HTML §9.2.6)",
           "the extraction rule of lib/vf.py (//@extract): the block between two unique marker lines of Response::send is copied verbatim into a harness function on every run"]
ASSUMPTIONS = ["dropped by the extraction and NOT under contract: the await points of the loop (stream.next(), write_all, flush), i.e. every producer schedule / pacing question, the response head (Transfer-Encoding: chunked is set by set_stream_raw) and the final `0 CRLF CRLF` write, which the harness appends itself",
               "messages restricted to ASCII of length <= 3, at most 2 messages"]
JOBS = 6   # several of these queries need 5-10 GB: 16 at once exhaust the machine
