# C17 Server-sent events: chunk framing of Response::send (Content::Stream)
import os, sys
sys.path.insert(0, os.path.join(os.path.dirname(os.path.abspath(__file__)), "..", "lib"))
from vf import H, C, M

MODULES = [M("ohkami/src/response/mod.rs", "harness/C17/send.rs")]
CONTRACTS = []
SHAPES = [(1, 0, 0), (1, 1, 0), (1, 2, 0), (1, 3, 0), (2, 1, 1), (2, 0, 1), (2, 2, 0), (0, 0, 0)]
QUICK = {0, 1, 2, 4, 7}
HARNESSES = [H(f"c17_sse_framing_contract_k{k:02d}", crate="ohkami", strength="bounded", timeout=1200, tier="quick" if k in QUICK else "thorough",
               functions=["Response::send (Content::Stream branch)", "Response::set_stream_raw", "ohkami_lib::num::hexized_bytes"],
               clauses=["the bytes after the head are (hex size CRLF data CRLF)* 0 CRLF CRLF",
                        "the de-chunked content, read by the WHATWG event-stream algorithm, is exactly the produced messages in order with CRLF/CR normalised to LF",
                        "no event/id/retry field, no comment or unknown-field line, nothing left undispatched"],
               bound=f"{n} message(s) of {l0}" + (f" and {l1}" if n > 1 else "") + " symbolic ASCII byte(s); producer yields one message per poll")
              for k, (n, l0, l1) in enumerate(SHAPES)]
TRUSTED = ["util::unix_timestamp stubbed (clock)", "the reference chunked reader / event-stream interpreter in harness/C17/send.rs (written from RFC 9112 §7.1 and WHATWG HTML §9.2.6)",
           "tokio's AsyncWriteExt::write_all/flush executed over a recording connection that accepts every write whole"]
ASSUMPTIONS = ["producer schedules other than 'ready at every poll' (Pending between messages, QueueStream's waker protocol) are not covered: Kani has no scheduler model",
               "messages restricted to ASCII of length <= 3, at most 2 messages"]
