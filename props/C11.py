# C11 Cookies (request side: Cookie header decoding)
import os, sys
sys.path.insert(0, os.path.join(os.path.dirname(os.path.abspath(__file__)), "..", "lib"))
from vf import H, C, M

MODULES = [M("ohkami_lib/src/serde_cookie/de.rs", "harness/C11/cookie_de.rs")]
CONTRACTS = []
B = dict(crate="ohkami_lib", strength="bounded", tier="quick", timeout=900)
F = "serde_cookie::de::"
HARNESSES = [H(f"c11_cookie_jar_roundtrip_k{k:02d}", functions=[F + "AmpersandSeparated::next_key_seed", F + "AmpersandSeparated::next_value_seed", F + "CookieDeserializer::next_section", F + "valid::name", F + "valid::value"],
               clauses=["for every jar of the shape: each name decodes to the name sent, each value to the value sent (double quotes stripped), in order, and nothing follows the last cookie"],
               bound=["jar `N=VV; M=W`", "jar `N=\"VV\"; M=W` (double-quoted value)", "jar `N=VV`"][k] + "; names any RFC 6265 token byte, values any cookie-octet except `%` (symbolic)", **B) for k in range(3)] + [
    H("c11_cookie_percent_value", functions=[F + "AmpersandSeparated::next_value_seed", F + "valid::value"],
      clauses=["`n=%XY` for all 256 bytes XY: ASCII byte => that byte; otherwise an error (never an invalid string)"], bound="all 256 escapes", **B),
]
TRUSTED = ["ASSUMED CONTRACTS: percent-encoding crate (spec/percent.rs), core::str::from_utf8 (spec/utf8.rs), alloc::fmt::format stubbed", "serde's &str / String Deserialize impls executed, not specified"]
ASSUMPTIONS = ["typed structs (serde-derived glue), the request's cookie iterator util::iter_cookies and the Set-Cookie builder / SetCookie::from_raw round trip are NOT under a discharged contract"]
