# C11 Cookies (request side: Cookie header decoding; response side: Set-Cookie build / parse round trip)
import os, sys
sys.path.insert(0, os.path.join(os.path.dirname(os.path.abspath(__file__)), "..", "lib"))
from vf import H, C, M

MODULES = [M("ohkami_lib/src/serde_cookie/de.rs", "harness/C11/cookie_de.rs"), M("ohkami/src/header/setcookie.rs", "harness/C11/setcookie.rs"), M("ohkami/src/util.rs", "harness/C11/iter_cookies.rs", modname="__verif_c11u")]
CONTRACTS = []
B = dict(crate="ohkami_lib", strength="bounded", tier="quick", timeout=900)
F = "serde_cookie::de::"
HARNESSES = [H(f"c11_cookie_jar_roundtrip_k{k:02d}", tier_override=("quick" if k == 2 else "thorough"), functions=[F + "AmpersandSeparated::next_key_seed", F + "AmpersandSeparated::next_value_seed", F + "CookieDeserializer::next_section", F + "valid::name", F + "valid::value"],
               clauses=["for every jar of the shape: each name decodes to the name sent, each value to the value sent (double quotes stripped), in order, and nothing follows the last cookie"],
               bound=["jar `N=VV; M=W`", "jar `N=\"VV\"; M=W` (double-quoted value)", "jar `N=VV`"][k] + "; names any RFC 6265 token byte, values any cookie-octet except `%` (symbolic)", **B) for k in range(3)] + [
    H("c11_cookie_percent_value", functions=[F + "AmpersandSeparated::next_value_seed", F + "valid::value"],
      clauses=["`n=%XY` for all 256 bytes XY: ASCII byte => that byte; otherwise an error (never an invalid string)"], bound="all 256 escapes", **B),
]
DS = ["no directive", "Path + HttpOnly + SameSite=Lax", "Max-Age + Secure", "Domain + Path + Secure + HttpOnly + SameSite=Strict", "Expires + SameSite=None"]
QUICK_SC = {0, 1, 2, 4, 5, 7, 10, 13}
HARNESSES += [H(f"c11_setcookie_roundtrip_k{k:02d}", crate="ohkami", strength="bounded", tier="quick" if k in QUICK_SC else "thorough", timeout=1200,
                functions=["header::setcookie::SetCookieBuilder::build", "header::setcookie::SetCookie::from_raw", "SetCookieBuilder::{new, Path, Domain, MaxAge, Expires, Secure, HttpOnly, SameSite*}"],
                clauses=["the emitted line is a single line `name=value *( \"; \" directive )` whose value consists of RFC 6265 cookie-octets only",
                         "from_raw(build(c)) has the value given to the builder (any UTF-8 string of the length: reserved characters, `%`, `;`, `\"`, space, non-ASCII included) and exactly the directives given"],
                bound=f"value: all valid UTF-8 strings of {k % 3} byte(s); directives: {DS[k // 3]}") for k in range(15)]
# the symbolic Set-Cookie shapes need more than 20 min each (measured 3 shapes): kept in harness/C11/setcookie.rs, NOT registered
HARNESSES = [h for h in HARNESSES if not h.name.startswith("c11_setcookie_roundtrip")]
VALS = ['abc123', '50%2Foff', 'a b;c', '"q"', 'U+00E9', 'YWJj==', '(empty)']
HARNESSES += [H(f"c11_setcookie_concrete_k{k:02d}", crate="ohkami", strength="bounded", tier="quick", timeout=600, expect_covers=False,
                functions=["header::setcookie::SetCookieBuilder::build", "header::setcookie::SetCookie::from_raw", "SetCookieBuilder::{new, Path, HttpOnly, SameSiteLax}"],
                clauses=["the emitted line starts with `sid=`, its value consists of RFC 6265 cookie-octets only, and it parses back to the value given to the builder and exactly Path=/, HttpOnly, SameSite=Lax"],
                bound=f"ONE concrete value: {VALS[k]}") for k in range(7)]
HARNESSES += [
    H("c11_iter_cookies_plain", crate="ohkami", strength="bounded", tier="quick", timeout=600, expect_covers=False, functions=["util::iter_cookies"],
      clauses=["a concrete jar of two plain cookies: every name and value as sent, in order, nothing after the last"], bound="ONE concrete jar `a=1; bc=23`"),
    H("c11_iter_cookies_single_and_empty", crate="ohkami", strength="bounded", tier="quick", timeout=600, expect_covers=False, functions=["util::iter_cookies"],
      clauses=["a single cookie; a cookie with an empty value followed by another"], bound="2 CONCRETE jars `a=1`, `e=; f=2`"),
    H("c11_iter_cookies_value_with_eq", crate="ohkami", strength="bounded", tier="quick", timeout=600, expect_covers=False, functions=["util::iter_cookies"],
      clauses=["a value containing `=` is delivered whole"], bound="ONE concrete jar `sid=YWJj==; x=1`"),
    H("c11_iter_cookies_encoded_values", crate="ohkami", strength="bounded", tier="quick", timeout=600, expect_covers=False, functions=["util::iter_cookies"],
      clauses=["a double-quoted value and a percent-encoded value denote the unquoted / decoded value"], bound="ONE concrete jar `q=\"v\"; p=a%20b`: the failing input class of KF-C11-cookie-iterator-raw-values",
      finding="KF-C11-cookie-iterator-raw-values"),
]
TRUSTED = ["ASSUMED CONTRACTS: percent-encoding crate (spec/percent.rs), core::str::from_utf8 (spec/utf8.rs), alloc::fmt::format stubbed", "serde's &str / String Deserialize impls executed, not specified"]
ASSUMPTIONS = ["typed structs (serde-derived glue), the request's cookie iterator util::iter_cookies are NOT under a discharged contract; Set-Cookie: cookie NAME fixed (`sid`), directive VALUES fixed literals per shape; the byte_reader crate is executed, not specified"]
JOBS = 6   # several of these queries need 5-10 GB: 16 at once exhaust the machine

# the two-cookie jar templates k00 / k01 take 11-12 min each (measured 675 s / 711 s): thorough tier; the quick tier keeps the single-cookie template and the 256 escapes
GROUP_JOBS = {"ohkami_lib": 4}
