# C01 Routing
import os, sys
sys.path.insert(0, os.path.join(os.path.dirname(os.path.abspath(__file__)), "..", "lib"))
from vf import H, C, M

F = "ohkami/src/router/final.rs"
U = "ohkami/src/router/util.rs"
P = "ohkami/src/request/path.rs"
MODULES = [M(F, "harness/C01/final.rs"), M(U, "harness/C01/util.rs"), M(P, "harness/C01/path.rs"), M("ohkami/src/router/base.rs", "harness/C01/base.rs")]
CONTRACTS = [
    C(U, "pub(super) fn split_next_section(", [
        "kani::ensures(|r: &(&[u8], &[u8])| __verif_c01::split_post(path, r.0, r.1))",
    ]),
]
B = dict(crate="ohkami", tier="quick", strength="bounded", timeout=900)
HARNESSES = [
    H("c01_split_next_section_contract", functions=["router::util::split_next_section"], kind="proof_for_contract",
      clauses=["ensures a ++ b == path (as sub-slices), a contains no '/', b is empty or starts with '/'", "from_raw_parts pointer arithmetic inside the slice"],
      bound="slices of length <= 8, symbolic content and length", **B),
    H("c01_path_init_contract", functions=["request::path::Path::init_with_request_bytes", "request::path::Path::normalized_bytes"],
      clauses=["Err iff the target does not start with '/'", "normalized bytes == input minus exactly one trailing '/'", "params empty"],
      bound="targets of length 1..=8", **B),
    H("c01_take_through_param_contract", functions=["router::final::Pattern::take_through (Param)", "request::path::Path::push_param"],
      clauses=["Some(rest) iff bytes = '/' seg rest, seg non-empty and '/'-free", "rest is the sub-slice after seg", "exactly seg is pushed as the next param; nothing pushed on a miss"],
      bound="bytes of length <= 8", **B),
] + [
    H(f"c01_take_through_static_contract_k{k:02d}", functions=["router::final::Pattern::take_through (Static)"],
      clauses=["Some(rest) iff bytes = s ++ rest with rest empty or starting with '/' (identical segment, not a byte prefix)", "rest == bytes[s.len()..]", "no param pushed"],
      bound=f"static pattern of length {k} (symbolic content, '' or '/'+segment), bytes of length <= 8", **B) for k in range(5)
] + [
    H(n, functions=["router::final::Node::search_target", "router::final::Pattern::take_through", "router::util::split_next_section"],
      clauses=[c], unwindset={"search_target.0": 5, "search_target.1": 6, "memcmp": 6, "split_next_section": 10, "any_request": 10, "eq_at": 6}, bound="one concrete final tree, every request path of length <= 8 (symbolic bytes, symbolic length); paths with empty segments: safety only", **B)
    for n, c in [
        ("c01_search_tree_us_param", "tree '' -> ['/us' -> [:p], :p]: hit/miss, target node and captured params equal the segment-wise reference for every path"),
        ("c01_search_tree_compressed", "compressed tree '/a/b' -> ['/z' -> [:id], '/y']: hit/miss, target and params per segment-wise reference"),
        ("c01_search_tree_two_params", "tree '' -> [:a -> ['/x', :b]]: static preferred at each position, both params are the segments at their positions"),
        ("c01_search_tree_prefix_siblings", "tree '' -> ['/a.b', '/a' -> ['/c'], :p]: static siblings sharing a byte prefix (separator characters sorting below '/'): every path reaches the segment-wise matching route"),
    ]
]
MN = ["GET", "PUT", "POST", "PATCH", "DELETE", "OPTIONS", "HEAD"]
HARNESSES += [H(f"c01_handle_dispatch_k{k:02d}", functions=["router::final::Router::handle", "router::final::Node::search", "response::Response::complete"],
                clauses=["the tree of the request's method is searched and the handler registered there for the matching route runs; HEAD runs the GET handler and is answered without a body but with its headers",
                         "a path with no route is answered 404 by the catch proc: no handler runs"],
                bound=f"six one-route trees (`/a`) answering with distinct statuses; request {MN[k % 7]} {'/a' if k // 7 == 0 else '/b'}", crate="ohkami", tier="quick", strength="bounded", timeout=900) for k in range(14)]


def pre_run(scratch, tier, logdir):
    import split_verus
    return [split_verus.run(scratch, logdir, H)]


CHECKER_EXTRA = "; plus `verus split_extracted.rs --output-json --time` on split_next_section cut from ohkami/src/router/util.rs on every run (rules S1-S8, lib/split_verus.py): proved for slices of EVERY length"


def stub_fmt_note():
    return "alloc::fmt::format executed (merge_statics uses format!)"


# c01_finalize_orders_children / c01_finalize_compresses_static_chain (harness/C01/final.rs) are written but NOT registered:
# no answer within 15 min (sort_by + Cow<str> comparison + format! in merge_statics under CBMC); retried in session 2 with the registration order as a
# compile-time constant and the result forgotten: 19 GB after 11 min, still no answer.
TRUSTED = ["Verus 0.2026.09.13 / Z3 and the rewriting rules S1-S8 of lib/split_verus.py (safe-slice form of the unsafe sub-slicing; each rule asserts its match count; raw-pointer provenance itself stays with the bounded Kani harness)", "reference expectations per tree in harness/C01/final.rs (segment-wise matching transcribed from the property statement)"]
ASSUMPTIONS = ["children order as the documented precondition of Node::search demands (statics in reverse alphabetical order, param last); From<base::Node> (compression, child sort), registration and merge of nested Ohkamis are not under a discharged contract (harnesses written, no answer in 15 min)",
               "percent-encoded request bytes are compared raw by the router (decoding is C07)"]
