# C20 Date and number formatters — every harness full-domain (proved)
import os, sys
sys.path.insert(0, os.path.join(os.path.dirname(os.path.abspath(__file__)), "..", "lib"))
from vf import H, C, M

T = "ohkami_lib/src/time.rs"
N = "ohkami_lib/src/num.rs"

MODULES = [M(T, "harness/C20/time.rs"), M(N, "harness/C20/num.rs")]

CONTRACTS = [
    C(T, "fn from_days(days: i32) -> Self", [
        "kani::requires(days >= __verif_c20::DAY0 && days <= __verif_c20::DAY0 + __verif_c20::MAX_DAYS)",
        "kani::ensures(|r: &Date| __verif_c20::from_days_post(days, r))",
    ], within="impl Date"),
    C(T, "pub fn from_unix_timestamp(unix_timestamp: u64) -> Self", [
        "kani::requires(unix_timestamp <= __verif_c20::MAX_TS)",
        "kani::ensures(|r: &UTCDateTime| __verif_c20::from_unix_timestamp_post(unix_timestamp, r))",
    ], within="impl UTCDateTime"),
]

P = dict(crate="ohkami_lib", strength="proved", tier="quick")
CH = "; domain split into 16 adjacent chunks of 502 years (c20_partition_covers_domain proves the chunks tile the domain), each chunk fully symbolic"


def chunked(prefix, **kw):
    kw["bound"] = "full input domain" + CH
    return [H(f"{prefix}_k{k:02d}", **kw, **P) for k in range(16)]


HARNESSES = [
    H("c20_partition_covers_domain", functions=[], kind="lemma", clauses=["the 16 year / day / timestamp chunks are adjacent and span exactly 1970..=9999 / 719163..=3652059 / 0..=253402300799"], timeout=300, **P),
    H("c20_hms_contract", functions=["time::Time::hms", "time::Time::from_seconds"],
      clauses=["requires secs < 86400", "ensures h < 24 && m < 60 && s < 60 && 3600h+60m+s == secs"], timeout=300, **P),
    H("c20_year_flag_contract", functions=["time::YearFlag::from_year", "time::Of::new", "time::Of::weekday", "time::Weekday::num_days_from_sunday"],
      clauses=["for all years 1970..=9999: leap bit <=> Gregorian leap rule", "weekday encoded for 1 January == ce_day(y,1) mod 7"], timeout=300, **P),
    H("c20_mdf_contract", functions=["time::Mdf::from_of", "time::Mdf::month", "time::Mdf::day", "time::Date::month_index", "time::Date::day", "time::Date::from_ordinal_and_flags"],
      clauses=["for every year flag and every ordinal 1..=365/366: (month, day) is the ordinal-th day of that year per the month-length table"], timeout=600, **P),
] + chunked("c20_weekday_contract", functions=["time::Of::weekday", "time::Date::weekday", "time::Weekday::from_u32_mod7"],
      clauses=["for all years 1970..=9999 and ordinals: weekday == day number mod 7"], timeout=600,
) + chunked("c20_from_days_contract", functions=["time::Date::from_days"], kind="proof_for_contract",
      clauses=["requires 719163 <= days <= 719163+2932896", "ensures 1970<=year<=9999, 1<=ordinal<=365+leap, flag==from_year(year), 365(y-1)+(y-1)/4-(y-1)/100+(y-1)/400+ordinal == days",
               "every get_unchecked index in range (CBMC pointer checks)"], timeout=600,
) + chunked("c20_from_days_replayable", functions=["time::Date::from_days"], kind="plain twin of the contract harness (natively replayable)",
      clauses=["same postcondition as the attribute contract of from_days, asserted in a plain harness"], timeout=600,
) + chunked("c20_from_unix_timestamp_contract", functions=["time::UTCDateTime::from_unix_timestamp"], kind="proof_for_contract + stub_verified(Date::from_days)",
      clauses=["requires t <= 253402300799", "ensures date valid, secs < 86400, (ce_day(year, ordinal) - 719163)*86400 + secs == t (relational)"], timeout=600,
) + chunked("c20_into_imf_fixdate_contract", functions=["time::UTCDateTime::into_imf_fixdate"],
      clauses=["requires a valid Date (type invariant) and secs < 86400", "ensures 29 bytes in IMF-fixdate layout; printed Y/M/D is the date of (year, ordinal); printed time is secs; printed weekday is day number mod 7",
               "MaybeUninit writes via get_unchecked_mut stay inside the 29-byte buffer"], timeout=600,
) + chunked("c20_imf_fixdate_denotes_instant", functions=["time::imf_fixdate"], kind="lemma over contracts (stub_verified(UTCDateTime::from_unix_timestamp))",
      clauses=["for all t <= 253402300799: the printed string parses (spec parser) to Y-M-D h:m:s with days_from_civil(Y,M,D)*86400 + 3600h+60m+s == t"], timeout=600,
) + chunked("c20_imf_fixdate_denotes_weekday", functions=["time::imf_fixdate"], kind="lemma over contracts (stub_verified(UTCDateTime::from_unix_timestamp))",
      clauses=["for all t: printed weekday name == (days_from_civil(printed date) + 4) mod 7"], timeout=600,
) + [
    H("c20_hexized_bytes_contract", functions=["num::hexized_bytes"], clauses=["for all usize: 16 lowercase hex digits whose value is n"], timeout=300, **P),
    H("c20_hexized_string_contract", functions=["num::hexized"], clauses=["for all usize: 16 ASCII bytes (from_utf8_unchecked sound)"], timeout=300, **P),
    H("c20_itoa_value_below_100000", functions=["num::itoa"], clauses=["for n < 100000: digits only, canonical, decimal value == n (real function; cross-check of the Verus unit and its counterexample finder)"],
      timeout=600, crate="ohkami_lib", tier="quick", strength="bounded", bound="n < 100000", crosscheck=True),
] + [H(f"c20_itoa_value_near_power_of_ten_k{k:02d}", functions=["num::itoa"], clauses=["for every n within 1000 of 10^k (k = 0: the top 2000 values of usize): digits only, canonical, decimal value == n (real function)"],
        timeout=900, crate="ohkami_lib", tier="quick", strength="bounded", bound="window of 2001 values around 10^k", crosscheck=True) for k in range(20)] + [
    H("c20_itoa_memory_safe_all_usize", functions=["num::itoa"], clauses=["for all usize: every ptr::write inside the 20-byte allocation, 1 <= len <= 20"], timeout=900, **P),
]

def pre_run(scratch, tier, logdir):
    import itoa_verus
    return [itoa_verus.run(scratch, logdir, H)]


CHECKER_EXTRA = "; plus `verus itoa_extracted.rs --rlimit 400 --output-json --time` on the item cut from `cargo +nightly rustc -- -Zunpretty=expanded` (rules E1-E6, lib/itoa_verus.py)"
TRUSTED = ["Verus 0.2026.09.13 / Z3 (itoa value clause); rustc's macro expander and the extraction rules E1-E6 (each asserts its match count)", "spec functions in harness/C20/time.rs (Gregorian leap rule, forward day-number formula, month lengths, RFC 9110 name tables)"]
ASSUMPTIONS = ["timestamps range over [0, 253402300799] as the property states (kani::assume in the harnesses)"]
