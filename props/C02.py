# C02 Request parsing (piece contracts) — shares harness files with C05 / C06
import os, sys
sys.path.insert(0, os.path.join(os.path.dirname(os.path.abspath(__file__)), "..", "lib"))
from vf import H, C, M

RM = "ohkami/src/request/mod.rs"
MODULES = [M(RM, "harness/C02/request_mod.rs", modname="__verif_req"), M("ohkami/src/request/method.rs", "harness/C02/method.rs"),
           M("ohkami/src/request/headers.rs", "harness/C02/headers.rs"),
           M(RM, "harness/C02/read_head.rs", modname="__verif_c02h"), M("ohkami/src/request/query.rs", "harness/C02/query_helper.rs", modname="__verif_c02q")]
CONTRACTS = []
B = dict(crate="ohkami", strength="bounded", tier="quick", timeout=900)
READ_PAYLOAD = [H(f"c06_read_payload_contract_k{k:02d}", functions=["request::Request::read_payload"],
                  clauses=["result == exactly the `size` body bytes for any byte values (0x00 included)", "for every split between bytes that arrived with the head and bytes still to come, and every chunking of the latter",
                           "consumes exactly the missing bytes; does not wait when the body has already arrived; no panic"],
                  bound="one harness per shape (size 1..=3, 0..=4 bytes already arrived incl. bytes of a following request, chunk size 1 or 4; the stream holds the missing bytes followed by 2 bytes of the next request); contents symbolic", **B) for k in range(30)]
CLEAR = [H(f"c05_clear_contract_k{k:02d}", functions=["request::Request::clear", "request::headers::Headers::clear", "request::context::Context::clear", "header::map::IndexMap::clear", "ohkami_lib::map::TupleMap::clear"],
           clauses=["after clear(): no standard/custom header, payload, context entry, query of the earlier request is observable; buffer marked unused", "a header appended after clear() is the only header"],
           bound="one harness per shape (subset of {1 header, repeated header, custom header, payload, context entry}), contents symbolic; path/query are reset by plain assignment (read, not verified)",
           unwindset={"4find&IndexMap": 4, "drop_glue": 4, "v_standard_count": 4, "v_custom_count": 4, "TupleMap": 4, "memcmp": 6}, **B) for k in range(32)]
CLEAR.append(H("c05_clear_full_buffer_contract", functions=["request::Request::clear"],
               clauses=["the earlier request filled the whole 1 KiB buffer (no NUL byte): after clear() no header, payload or context entry is observable, buffer marked unused"],
               bound="one concrete shape (buffer of 1024 non-zero bytes; one standard header, one custom header, payload, context entry with symbolic contents)",
               unwindset={"4find&IndexMap": 4, "drop_glue": 4, "v_standard_count": 4, "v_custom_count": 4, "TupleMap": 4, "memcmp": 6}, **B))
HEADS = ["GET / (minimal)", "POST with query, two headers, Content-Length 3 and the body in the same read", "one header + trailing slash", "Content-Length 0 followed by the next request's bytes",
         "unknown method", "HTTP/1.0", "no version", "target not starting with /", "header line without `: `", "head not terminated by an empty line", "target runs to the end of the input", "method only",
         "Content-Length `1x`", "Content-Length of 23 digits", "Content-Length `-1`", "query runs to the end of the input", "a custom header"]
READ_HEAD = [H(f"c02_read_head_concrete_k{k:02d}", functions=["request::Request::read (the synchronous request-line / header-block parsing, extracted verbatim)", "request::path::Path::init_with_request_bytes", "request::headers::Headers::append", "request::headers::Headers::insert_custom"],
               clauses=["a well-formed head: method, path (one trailing slash ignored), query string, header values (repeated headers joined in order), Content-Length and the number of bytes that follow the head are what the wire bytes denote",
                        "a malformed head is answered with an error response (status >= 400) or by closing the connection: never a panic (unwrap, arithmetic overflow), never a parsed request"],
               bound="ONE concrete request head: " + HEADS[k], **B) for k in range(17)]
HARNESSES = READ_HEAD + [
    H("c02_method_from_bytes_contract", functions=["request::method::Method::from_bytes"], clauses=["Some(m) iff bytes == m.as_str() for one of the 7 methods"], bound="tokens of length <= 8", **B),
    H("c02_header_from_bytes_sound", functions=["request::headers::Header::from_bytes"], clauses=["Some(h) => name equals h.as_str() up to ASCII case"], bound="names of length <= 12 (symbolic)", **B),
    H("c02_header_from_bytes_canonical_and_lowercase", functions=["request::headers::Header::from_bytes"], clauses=["for every standard header: canonical and all-lowercase spelling => Some(that header)"], bound="all 46 headers (symbolic index), 2 spellings", **B),
    H("c02_header_from_bytes_any_case", functions=["request::headers::Header::from_bytes"], clauses=["every ASCII-case variant of `Content-Length` => Some(ContentLength) (property: names compare case-insensitively)"],
      bound="all 2^14 case masks of one name", finding="KF-C02-header-case", **B),
    H("c02_headers_append_joins_in_order", functions=["request::headers::Headers::append", "request::headers::Headers::get_raw", "ohkami_lib::slice::CowSlice::extend_from_slice"],
      clauses=["repeated header values joined in order with `, `; other headers untouched"], bound="two values of 2 and 1 symbolic bytes", **B),
] + READ_PAYLOAD
TRUSTED = ["tokio's AsyncReadExt::read_exact over the scripted AsyncRead (executed, not specified)", "byte_reader (not involved in these pieces)"]
ASSUMPTIONS = ["the request-line / header-loop glue of Request::read (method token, target, version, header lines, Content-Length fold) is NOT under a discharged contract: "
               "no whole-read harness is affordable under CBMC (DESIGN §2); QueryParams::iter (from_utf8_lossy) is not under contract"]
