# C14 CORS: CORSProc::bite header matrix + default OPTIONS handler (preflight admission)
import os, sys
sys.path.insert(0, os.path.join(os.path.dirname(os.path.abspath(__file__)), "..", "lib"))
from vf import H, C, M

MODULES = [M("ohkami/src/fang/builtin/cors.rs", "harness/C14/cors.rs")]
CONTRACTS = []
B = dict(crate="ohkami", strength="bounded", timeout=1200)
def desc(shape):
    b = lambda n: (shape >> n) & 1 == 1
    return (("wildcard origin" if b(0) else "explicit origin") + (", credentials requested" if b(1) else "") + (", expose-headers" if b(2) else "") +
            (f", max-age {[600, 0, 1, 4294967295][(shape // 128 + shape // 64) % 4]}" if b(3) else "") + (", configured allow-headers" if b(4) else "") + (", OPTIONS request" if b(5) else ", GET request") +
            (", with Access-Control-Request-Headers (3 symbolic bytes)" if b(6) else "") + ", inner status " + ["200", "501", "404", "400"][shape // 128])
# quick: 18 shapes chosen so that every bit takes both values with OPTIONS and with GET, and every inner status occurs under OPTIONS
QUICK = {0b0100000 + 128, 0b1100000 + 128, 0b0110111 + 128, 0b1101110 + 128, 0b0100010 + 384, 0b0100001 + 256, 0b1110100 + 0, 0b0101011 + 128,
         0b0000000 + 0, 0b0000011 + 0, 0b0011110 + 256, 0b1011101 + 384, 0b0000110 + 128, 0b1000001 + 0, 0b0010010 + 384, 0b0001100 + 256,
         104, 296}   # 104 / 296: OPTIONS with max-age 0 / 1 (boundary values)
def heavy(k):
    # wildcard origin + OPTIONS + (configured or echoed allow-headers): `Vary: Origin` followed by `.Vary(append(..))` -- the String-growing append path,
    # measured 300 s and 10-30 GB per shape
    return bool(k & 1) and bool(k & 32) and bool(k & (16 | 64))
def registered(k):
    return (not heavy(k)) or (k & 0b1110) == 0 or k in QUICK      # of the 96 heavy shapes only the 12 without credentials / expose / max-age (and the quick one) are registered
HARNESSES = [H(f"c14_cors_bite_contract_k{k:02d}", tier="quick" if k in QUICK else "thorough",
               functions=["<CORSProc<Inner> as FangProc>::bite", "CORS::new", "CORS::AllowCredentials", "CORS::ExposeHeaders", "CORS::AllowHeaders", "CORS::MaxAge", "<CORS as Fang>::chain"],
               clauses=["every response: Access-Control-Allow-Origin == configured origin; Allow-Credentials: true iff enabled on a non-wildcard origin; configured Expose-Headers",
                        "OPTIONS: configured Max-Age; Allow-Headers = configured, else the echoed Access-Control-Request-Headers; inner 501 becomes 200 without Content-Type/Content-Length; any other status passes through",
                        "not OPTIONS: no preflight-only header, status and body declaration untouched"],
               bound="one configuration/request shape: " + desc(k), **B) for k in range(512) if registered(k)]
LISTS = ["[GET]", "[POST]", "[GET, PATCH]", "[PUT, DELETE]"]
HARNESSES += [H(f"c14_default_options_contract_k{k:02d}", tier="quick" if (k < 12 or k >= 20) else "thorough",
                functions=["Handler::default_options_with", "Handler::new"],
                clauses=["no Access-Control-Request-Method: 404", "501 (valid-preflight marker) iff the requested token is exactly a registered method, HEAD when GET is registered, or OPTIONS; otherwise 400",
                         "Access-Control-Allow-Methods is the registered methods (+HEAD with GET, +OPTIONS)"],
                bound=f"registered methods {LISTS[k % 4]}; " + (f"requested method token of {3 + k // 4} symbolic printable ASCII bytes" if k < 20 else "no Access-Control-Request-Method header"), **B) for k in range(24)]
TOK = ["PAT", "PATC", "EAD", "GE", "T", ",", ", ", "GET,", "GET, PATCH", "get", " GET", "OPTION", "GET", "PATCH", "HEAD", "OPTIONS"]
HARNESSES += [H(f"c14_default_options_concrete_k{k:02d}", tier="quick", functions=["Handler::default_options_with"],
                clauses=["a concrete token sharing text with the advertised list but not a method (substring, separator, case, padding) => 400; an admitted method => 501"],
                bound=f"registered [GET, PATCH]; ONE concrete token `{TOK[k]}`", expect_covers=False, **B) for k in range(16)]
HARNESSES += [H("c14_builder_credentials_need_explicit_origin", tier="quick", functions=["CORS::AllowCredentials", "CORS::new"],
                clauses=["credentials are never enabled together with the wildcard origin"], bound="the two origin kinds", expect_covers=False, **B)]
TRUSTED = ["util::unix_timestamp stubbed (clock)", "ASSUMED CONTRACT: core::str::from_utf8 (spec/utf8.rs)", "the inner proc is a stand-in answering with a fixed status and a 2-byte text body"]
ASSUMPTIONS = ["WHICH methods are registered for a path (the list handed to Handler::default_options_with by router/base.rs at registration time, through HashMap and leaked closures) is not under contract: "
               "the preflight clause is decided only relative to that list",
               "that the CORS fang wraps 404/error responses of its scope is the fang-scope property C04 (not applicable)"]
JOBS = 8   # several of these queries need 2-4 GB
