# C06 Segmentation independence: body delivery
import os, sys
import importlib.util
spec = importlib.util.spec_from_file_location("c02", os.path.join(os.path.dirname(os.path.abspath(__file__)), "C02.py"))
c02 = importlib.util.module_from_spec(spec); spec.loader.exec_module(c02)
MODULES, CONTRACTS = c02.MODULES, []
HARNESSES = c02.READ_PAYLOAD
TRUSTED = c02.TRUSTED
ASSUMPTIONS = ["only BODY delivery is under contract: a split inside the request head and several requests in one read are outside the claim (Request::read parses one read and discards what follows the request; no whole-read harness is affordable)"]
