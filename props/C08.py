# C08 Decoder totality
import os, sys
sys.path.insert(0, os.path.join(os.path.dirname(os.path.abspath(__file__)), "..", "lib"))
from vf import H, C, M

UD = "ohkami_lib/src/serde_urlencoded/de.rs"
CD = "ohkami_lib/src/serde_cookie/de.rs"
MODULES = [M("ohkami_lib/src/percent_encoding.rs", "harness/C08/percent_wrapper.rs", modname="__verif_c08w"), M(UD, "harness/C08/urlencoded_de.rs"), M(CD, "harness/C08/cookie_de.rs"), M("ohkami_lib/src/serde_multipart/parse.rs", "harness/C10/parse.rs", modname="__verif_c10")]
CONTRACTS = []
HARNESSES = []
B = dict(crate="ohkami_lib", strength="bounded", timeout=900)
T = "ensures Ok or Err: no panic, no unwrap on Err/None, no overflow, every from_raw_parts inside the input (CBMC checks); cursor stays a suffix of the input"
for fam, fns, extra in [
    ("bool", ["deserialize_bool"], []), ("u8", ["deserialize_u8"], []), ("i8", ["deserialize_i8"], []), ("u16", ["deserialize_u16"], []),
    ("i32", ["deserialize_i32"], []), ("u64", ["deserialize_u64"], []), ("i64", ["deserialize_i64"], []),
    ("str", ["deserialize_str", "deserialize_identifier", "next_section", "take_n_unchecked"], ["yielded &str valid UTF-8 and inside the input"]),
    ("string", ["deserialize_string", "percent_decode_utf8"], ["yielded String valid UTF-8"]),
    ("char", ["deserialize_char"], []),
    ("option_unit", ["deserialize_option", "deserialize_unit"], []),
    ("seq_ignored", ["deserialize_seq", "deserialize_tuple", "CommaSeparated::next_element_seed", "deserialize_ignored_any"], []),
    ("map_step", ["AmpersandSeparated::next_key_seed", "AmpersandSeparated::next_value_seed", "next", "peek"], ["map key valid UTF-8 inside the input"]),
    ("enum", ["deserialize_enum", "Enum::variant_seed"], []),
]:
    for k in range(5):
        HARNESSES.append(H(f"c08_url_{fam}_total_k{k:02d}", functions=["serde_urlencoded::de::URLEncodedDeserializer::" + f for f in fns],
                           clauses=[T] + extra, tier="quick" if k <= 4 else "thorough",
                           bound=f"every input of length {k} (symbolic bytes), arbitrary cursor side", **B))
for fam in ["value", "name"]:
    for k in range(6):
        HARNESSES.append(H(f"c08_cookie_{fam}_total_k{k:02d}", functions=[f"serde_cookie::de::valid::{fam}"],
                           clauses=["Ok or Err, no panic", "yielded string valid UTF-8" + ("; only RFC 6265 token characters accepted" if fam == "name" else "")],
                           tier="quick", bound=f"every input of length {k}", **B))
for fam, fns in [("map_step", ["AmpersandSeparated::next_key_seed", "AmpersandSeparated::next_value_seed", "CookieDeserializer::next_section", "take_n_unchecked"]),
                 ("u8", ["deserialize_u8"]), ("bool", ["deserialize_bool"]), ("i64", ["deserialize_i64"]), ("option", ["deserialize_option"]), ("unit", ["deserialize_unit"])]:
    for k in range(5):
        HARNESSES.append(H(f"c08_cookie_{fam}_total_k{k:02d}", functions=["serde_cookie::de::" + f for f in fns],
                           clauses=[T] + (["yielded key / value valid UTF-8"] if fam == "map_step" else []), tier="quick",
                           bound=f"every input of length {k} (symbolic bytes), arbitrary cursor side", **B))
HARNESSES.append(H("c08_cookie_value_escape_template", functions=["serde_cookie::de::valid::value", "percent_encoding::percent_decode"],
                   clauses=["for every escape %XY: Ok(v) => v is valid UTF-8"], tier="quick", bound="template `%XY`, X and Y any bytes", **B))
# multipart parser: only the templates with EMPTY content are decided by CBMC (with 1..3 symbolic content bytes: timeout / out of memory, measured);
# they are concrete executions of the real parser under CBMC's memory model (a malformed body without CRLF before the delimiter, one text field, one file)
for nm, cl in [("c10_parse_malformed_total_k00", "body `--b CRLF CRLF --b--` (no CRLF before the delimiter) is refused: no arithmetic underflow, no slice outside the input"),
               ("c10_parse_text_field_k00", "one empty text field decodes to exactly that field"),
               ("c10_parse_file_k00", "one empty file decodes to name / filename / media type / empty content; next() yields it once")]:
    HARNESSES.append(H(nm, functions=["serde_multipart::parse::Multipart::parse", "serde_multipart::parse::Multipart::next"], clauses=[cl], tier="quick",
                       bound="ONE concrete template (no symbolic byte): a symbolic execution of the real parser, not a quantified statement",
                       unwindset={"memcmp": 8, "eq_ignore_ascii_case": 24, "spec_utf8": 6, "eqb": 6, "any_content": 5}, crate="ohkami_lib", strength="bounded", timeout=900))
TPL = ["(empty)", "a", "%", "%4", "%41", "a%41", "%41a", "ab%41", "%41%42", "a%4", "%41%", "abc%3F", "%zz", "%4g", "%E7%8B%BC", "%ff"]
for k in range(16):
    HARNESSES.append(H(f"c08_percent_wrapper_k{k:02d}", functions=["percent_encoding::percent_decode (ohkami_lib wrapper)", "percent_encoding::percent_decode_utf8 (ohkami_lib wrapper)", "external crate percent-encoding 2.x: PercentDecode (executed)"],
                       clauses=["percent_decode(input) == the RFC 3986 reference decoding (spec/percent.rs) byte for byte", "percent_decode_utf8: Ok(s) iff that decoding is valid UTF-8, and then s is it"],
                       tier="quick", bound=f"ONE concrete input `{TPL[k]}` (the assumed contract used everywhere else, checked against the real wrapper + crate on enumerated inputs)", crate="ohkami_lib", strength="bounded", timeout=600, expect_covers=False))
TRUSTED = ["serde's primitive Deserialize impls / visitors are executed symbolically, not specified", "ASSUMED CONTRACT of the external crate percent-encoding: ohkami_lib::percent_encoding::{percent_decode, percent_decode_utf8} are stubbed by the reference RFC 3986 decoder spec/percent.rs (the real crate builds symbolic-length Vecs, on which CBMC does not terminate)", "alloc::fmt::format stubbed (error texts)"]
ASSUMPTIONS = ["floats excluded (std float parsing is outside CBMC's reach)", "derived Deserialize impls (struct/map glue) are not driven: the unit of contract is the deserializer method (DESIGN §4 C08)"]
