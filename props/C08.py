# C08 Decoder totality
import os, sys
sys.path.insert(0, os.path.join(os.path.dirname(os.path.abspath(__file__)), "..", "lib"))
from vf import H, C, M

UD = "ohkami_lib/src/serde_urlencoded/de.rs"
CD = "ohkami_lib/src/serde_cookie/de.rs"
MODULES = [M(UD, "harness/C08/urlencoded_de.rs"), M(CD, "harness/C08/cookie_de.rs")]
CONTRACTS = []
HARNESSES = []
B = dict(crate="ohkami_lib", strength="bounded", timeout=900)
T = "ensures Ok or Err: no panic, no unwrap on Err/None, no overflow, every from_raw_parts inside the input (CBMC checks); cursor stays a suffix of the input"
for fam, fns, extra in [
    ("bool", ["deserialize_bool"], []), ("u8", ["deserialize_u8"], []), ("i8", ["deserialize_i8"], []), ("u16", ["deserialize_u16"], []),
    ("i32", ["deserialize_i32"], []), ("u64", ["deserialize_u64"], []), ("i64", ["deserialize_i64"], []),
    ("str", ["deserialize_str", "deserialize_identifier", "next_section", "take_n_unchecked"], ["yielded &str valid UTF-8 and inside the input"]),
    ("string", ["deserialize_string", "percent_decode_utf8"], ["yielded String valid UTF-8"]),
    ("char", ["deserialize_char"], []),
    ("option_unit", ["deserialize_option", "deserialize_unit"], []),
    ("seq_ignored", ["deserialize_seq", "deserialize_tuple", "CommaSeparated::next_element_seed", "deserialize_ignored_any"], []),
    ("map_step", ["AmpersandSeparated::next_key_seed", "AmpersandSeparated::next_value_seed", "next", "peek"], ["map key valid UTF-8 inside the input"]),
    ("enum", ["deserialize_enum", "Enum::variant_seed"], []),
]:
    for k in range(5):
        HARNESSES.append(H(f"c08_url_{fam}_total_k{k:02d}", functions=["serde_urlencoded::de::URLEncodedDeserializer::" + f for f in fns],
                           clauses=[T] + extra, tier="quick" if k <= 4 else "thorough",
                           bound=f"every input of length {k} (symbolic bytes), arbitrary cursor side", **B))
for fam in ["value", "name"]:
    for k in range(6):
        HARNESSES.append(H(f"c08_cookie_{fam}_total_k{k:02d}", functions=[f"serde_cookie::de::valid::{fam}"],
                           clauses=["Ok or Err, no panic", "yielded string valid UTF-8" + ("; only RFC 6265 token characters accepted" if fam == "name" else "")],
                           tier="quick", bound=f"every input of length {k}", **B))
HARNESSES.append(H("c08_cookie_value_escape_template", functions=["serde_cookie::de::valid::value", "percent_encoding::percent_decode"],
                   clauses=["for every escape %XY: Ok(v) => v is valid UTF-8"], tier="quick", bound="template `%XY`, X and Y any bytes", **B))
TRUSTED = ["serde's primitive Deserialize impls / visitors are executed symbolically, not specified", "ASSUMED CONTRACT of the external crate percent-encoding: ohkami_lib::percent_encoding::{percent_decode, percent_decode_utf8} are stubbed by the reference RFC 3986 decoder spec/percent.rs (the real crate builds symbolic-length Vecs, on which CBMC does not terminate)", "alloc::fmt::format stubbed (error texts)"]
ASSUMPTIONS = ["floats excluded (std float parsing is outside CBMC's reach)", "derived Deserialize impls (struct/map glue) are not driven: the unit of contract is the deserializer method (DESIGN §4 C08)"]
