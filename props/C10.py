# C10 multipart/form-data
import os, sys
sys.path.insert(0, os.path.join(os.path.dirname(os.path.abspath(__file__)), "..", "lib"))
from vf import H, C, M

MODULES = [M("ohkami_lib/src/serde_multipart/parse.rs", "harness/C10/parse.rs")]
CONTRACTS = []
B = dict(crate="ohkami_lib", strength="bounded", tier="quick", timeout=900,
         unwindset={"memcmp": 8, "eq_ignore_ascii_case": 24, "spec_utf8": 6, "eqb": 6, "any_content": 5})
F = "serde_multipart::parse::Multipart::"
HARNESSES = []
for k in range(4):
    HARNESSES += [
        H(f"c10_parse_malformed_total_k{k:02d}", functions=[F + "parse"], clauses=["a part whose content is not followed by CRLF before the delimiter is refused: no panic, no slice outside the input (CBMC checks on the from_raw_parts block)"],
          bound=f"template `--b CRLF CRLF <{k} symbolic bytes> --b--`", **B),
        H(f"c10_parse_text_field_k{k:02d}", functions=[F + "parse"], clauses=["one text field: name and value byte-exact; non-UTF-8 text => error"], bound=f"template with one text field, value = {k} symbolic bytes (no '-')", **B),
        H(f"c10_parse_file_k{k:02d}", functions=[F + "parse", F + "next"], clauses=["one file: name, filename, media type and content byte-exact (CR, LF, NUL, high bytes); next() yields it under its name, then None"],
          bound=f"template with one file part, content = {k} symbolic bytes (no '-')", **B),
    ]
TRUSTED = ["byte_reader 3.1.1 executed symbolically, not specified", "ASSUMED CONTRACT: core::str::from_utf8 (spec/utf8.rs)"]
ASSUMPTIONS = ["fixed boundary `b`, fixed names; forms of one part only; several files under one name, optional part headers, from_bytes::<T> through serde-derived impls and the File/Vec<File>/Option<File> shape errors are NOT under a discharged contract"]
