# C10 multipart/form-data
import os, sys
sys.path.insert(0, os.path.join(os.path.dirname(os.path.abspath(__file__)), "..", "lib"))
from vf import H, C, M

MODULES = [M("ohkami_lib/src/serde_multipart/parse.rs", "harness/C10/parse.rs")]
CONTRACTS = []
B = dict(crate="ohkami_lib", strength="bounded", tier="quick", timeout=900,
         unwindset={"memcmp": 8, "eq_ignore_ascii_case": 24, "spec_utf8": 6, "eqb": 6, "any_content": 5})
F = "serde_multipart::parse::Multipart::"
HARNESSES = []
for k in range(4):
    HARNESSES += [
        H(f"c10_parse_malformed_total_k{k:02d}", functions=[F + "parse"], clauses=["a part whose content is not followed by CRLF before the delimiter is refused: no panic, no slice outside the input (CBMC checks on the from_raw_parts block)"],
          bound=f"template `--b CRLF CRLF <{k} symbolic bytes> --b--`", **B),
        H(f"c10_parse_text_field_k{k:02d}", functions=[F + "parse"], clauses=["one text field: name and value byte-exact; non-UTF-8 text => error"], bound=f"template with one text field, value = {k} symbolic bytes (no '-')", **B),
        H(f"c10_parse_file_k{k:02d}", functions=[F + "parse", F + "next"], clauses=["one file: name, filename, media type and content byte-exact (CR, LF, NUL, high bytes); next() yields it under its name, then None"],
          bound=f"template with one file part, content = {k} symbolic bytes (no '-')", **B),
    ]
# only the k00 templates (EMPTY content) are decided by CBMC within the time limit
HARNESSES = [h for h in HARNESSES if h.name.endswith("_k00")]     # k01..k03 (1-3 symbolic content bytes): timeout / out of memory, kept in harness/C10 only
G = dict(crate="ohkami_lib", strength="bounded", tier="quick", timeout=900)
P = "serde_multipart::parse::"
HARNESSES += [H(f"c10_files_in_order_k{k:02d}", functions=[F + "next", P + "DeserializeFilesOrField::next_element_seed", P + "TextOrFiles::into_deserializer", "serde_multipart::file::FileDeserializer (MapAccess)"],
                clauses=["the files submitted under one name are grouped under it and handed to the target in submission order, each with its own filename, media type and byte-exact content; nothing beyond them; the text field stays text"],
                bound=f"a text field followed by {k + 1} file(s) under one name; 1-byte symbolic filenames and contents", **G) for k in range(4)]
HARNESSES += [H(f"c10_shape_fit_k{k:02d}", functions=[P + "DeserializeFilesOrField::deserialize_option", P + "DeserializeFilesOrField::deserialize_map", P + "DeserializeFilesOrField::deserialize_str", F + "next"],
                clauses=["Option<File>: None for an empty file input, Some(the file) for one, error for several", "File: the file for exactly one, error otherwise", "file part into a text target and text field into a file target: error, never a wrong value"],
                bound=f"{['an empty file input', 'one file', 'two files'][k]} (symbolic 1-byte filename / content)", **G) for k in range(3)]
CT = ['(empty)', 'a', 'a CR', 'CR', 'CRLF', 'a CRLF b', '--', 'a--b', 'LF', 'CR CR']
HARNESSES += [H(f"c10_parse_concrete_k{k:02d}", functions=[F + "parse"], clauses=["a file part with this content followed by a text field: both parts found, file content byte-exact, text field intact"],
                bound=f"ONE concrete two-part body, file content = {CT[k]}" + (": the failing input class of KF-C10-dashes-boundary-inside-content" if k == 7 else ""), crate="ohkami_lib", strength="bounded", tier="quick", timeout=900, expect_covers=False,
                finding="KF-C10-dashes-boundary-inside-content" if k == 7 else None) for k in range(10)]
HARNESSES += [H("c10_parse_three_files_template", functions=[F + "parse"], clauses=["parts are kept in submission order (a text field and three files under one name)"],
                bound="ONE concrete conforming body (no symbolic byte): a symbolic execution of the real parser, not a quantified statement",
                crate="ohkami_lib", strength="bounded", tier="quick", timeout=900, expect_covers=False)]
JOBS = 6
TRUSTED = ["byte_reader 3.1.1 executed symbolically, not specified", "ASSUMED CONTRACT: core::str::from_utf8 (spec/utf8.rs)"]
ASSUMPTIONS = ["fixed boundary `b`, fixed names; forms of one part only; parser templates with non-empty symbolic content are not decided by CBMC within the limit (not registered); the struct-level glue of from_bytes::<T> (serde-derived field dispatch of the target struct) is NOT under a discharged contract; File's own derived Deserialize is executed"]
