# C03 Responses on the wire
import os, sys
sys.path.insert(0, os.path.join(os.path.dirname(os.path.abspath(__file__)), "..", "lib"))
from vf import H, C, M

MAP = "ohkami/src/header/map.rs"
HDR = "ohkami/src/response/headers.rs"
MODULES = [M(MAP, "harness/C03/map.rs"), M(HDR, "harness/C03/headers.rs"), M("ohkami/src/response/mod.rs", "harness/C03/send_block.rs", modname="__verif_c03s")]
CONTRACTS = []

B = dict(crate="ohkami", tier="quick", strength="bounded", bound="IndexMap instantiated at N = 4, V = u8; arbitrary well-formed state, one harness per number of entries 0..=4 (inductive in the history length)")
MAPF = "header::map::IndexMap::"
def fam(prefix, n, **kw):
    return [H(f"{prefix}_k{k:02d}", **kw, **B) for k in range(n)]


HARNESSES = [
    H("c03_map_new_contract", functions=[MAPF + "new"], clauses=["ensures wf && view empty"], timeout=300, **B),
] + fam("c03_map_get_contract", 5, functions=[MAPF + "get", MAPF + "get_mut"], clauses=["requires wf && k < N", "ensures result == view[k]"], timeout=300,
) + fam("c03_map_get_mut_write_contract", 5, functions=[MAPF + "get_mut"], clauses=["writing through get_mut changes exactly view[k], wf preserved"], timeout=300,
) + fam("c03_map_set_contract", 4, functions=[MAPF + "set"], clauses=["requires wf && k < N && view[k] == None", "ensures wf (values.len() <= N: `len() as u8` never truncates), view[k] == Some(v), every other slot unchanged"], timeout=600,
) + fam("c03_map_delete_contract", 5, functions=[MAPF + "delete"], clauses=["requires wf && k < N", "ensures wf (no stale entry), view[k] == None, every other slot unchanged"], timeout=600,
) + fam("c03_map_clear_contract", 5, functions=[MAPF + "clear"], clauses=["ensures wf && view empty"], timeout=300,
) + fam("c03_map_iter_contract", 5, functions=[MAPF + "iter", MAPF + "into_iter"], clauses=["requires wf", "ensures yields exactly one (slot, value) per live slot, nothing stale"], timeout=600,
)
UW = {"write_unchecked_to": 4, "4find&IndexMap": 4, "drop_glue": 4, "TupleMap": 4}
HB = dict(crate="ohkami", strength="bounded", timeout=900, unwindset=UW,
          bound="operation histories of length <= 3 over {insert, append, remove} on one key, on top of one other live header; value lengths 0..2 and ownership fixed per position, value contents symbolic (any ASCII bytes)")
HF = "response::headers::Headers::"
QUICK_HIST = {0, 1, 2, 5, 8, 9, 10, 11, 18, 19, 20, 29, 32, 33, 35, 38}   # histories with two appends take 5-10 min each: thorough tier only
# custom-header histories with two appends (String growth twice) end in "CBMC out of memory" even when run alone: not registered (stated in level_note)
CUSTOM_UNAFFORDABLE = {7, 16, 22, 24, 25, 26, 28, 34}
JOBS = 8   # several of these queries need > 4 GB; 16 at once exhaust the machine   # every history containing a remove followed by insert/append, plus the singletons
for k in range(39):
    HARNESSES.append(H(f"c03_hdr_std_history_k{k:02d}", functions=[HF + "insert", HF + "append", HF + "remove", HF + "get_standard", HF + "write_unchecked_to", HF + "_write_to", "push_unchecked!"],
                       clauses=["after every operation size == 2 + sum(name+2+value+2) over the view", "view: set = latest, append = `old, new`, remove = absent; other header untouched",
                                "serializer writes exactly `size` bytes, all inside the reserved allocation", "wire image has every live header exactly once with its latest value"],
                       tier="quick" if k in QUICK_HIST else "thorough", **HB))
    if k in CUSTOM_UNAFFORDABLE:
        continue
    HARNESSES.append(H(f"c03_hdr_custom_history_k{k:02d}", functions=[HF + "insert_custom", HF + "append_custom", HF + "remove_custom", HF + "get_custom", HF + "write_unchecked_to", "ohkami_lib::map::TupleMap::{insert,get,get_mut,remove,iter}"],
                       clauses=["after every operation size == 2 + sum(name+2+value+2) over the view", "view of the custom header; other header untouched",
                                "serializer writes exactly `size` bytes, all inside the reserved allocation", "wire image"],
                       tier="quick" if k in QUICK_HIST else "thorough", **HB))
# schedules B / C (an EMPTY value in the first / second operation, harness/C03/headers.rs) are written but NOT registered: the histories where an
# append follows an empty value end in "CBMC out of memory" (measured: b_k04, c_k13), so "append to an empty value" is outside the enumerated states.
EV = ["append to an empty owned value", "append to an empty borrowed value", "re-set after an empty value", "append an empty value", "empty value, removed, appended", "two empty appends to an absent header"]
HARNESSES += [H(f"c03_hdr_empty_value_concrete_k{k:02d}", functions=[HF + "insert", HF + "append", HF + "remove", HF + "write_unchecked_to", HF + "_write_to", "push_unchecked!"],
                clauses=["size == 2 + sum(name+2+value+2) over the view; the view is the latest value; the serializer writes exactly `size` bytes inside the reserved allocation; wire image"],
                tier="thorough", **dict(HB, bound="ONE concrete history on a standard key with an EMPTY value among the operands: " + EV[k])) for k in (2, 4)]
# k00 k01 k03 k05 (an APPEND involving an empty value) run out of memory even with concrete values (String::push_str growth under CBMC): not registered, so seeded change c03a stays missed
RB = dict(crate="ohkami", strength="bounded", timeout=900, unwindset=UW, tier="quick")
HARNESSES += [
] + [H(f"c03_complete_204_contract_k{k:02d}", functions=["response::Response::complete"], clauses=["status 204 => no Content-Length, Content::None, size updated"],
      bound=f"shape (Content-Length present: {bool(k & 1)}, payload present: {bool(k & 2)}), 2 symbolic body bytes", **dict(RB, unwindset=None)) for k in range(4)] + [
    # thorough tier: decided in 190-230 s when run alone, but "CBMC out of memory" in 2 of 5 runs beside other queries
    H("c03_set_payload_contract", tier_override="thorough", functions=["response::Response::set_payload", "response::Response::set_text", "response::Response::drop_content", "ohkami_lib::num::itoa"],
      clauses=["Content-Length == decimal(body length), Content-Type set, size invariant, re-set replaces, drop_content removes both"],
      bound="body lengths 3 and 12 (itoa's full-domain contract is C20)", **RB),
]
HARNESSES += [H(f"c03_send_payload_block_k{k:02d}", functions=["response::Response::send (Content::Payload branch: the serialization block, extracted verbatim)", "response::Response::set_payload", "response::Response::complete", "response::headers::Headers::write_unchecked_to", "push_unchecked!"],
                clauses=["every raw copy stays inside the reserved allocation (with_capacity(status line + headers.size + body)); exactly that many bytes are produced",
                         "wire image: status line, header block ending in an empty line, then the body bytes byte-exact; Content-Length == number of body bytes"],
                bound=f"status 200, headers as set by Response::new + set_payload, body of {k} symbolic byte(s)", crate="ohkami", strength="bounded", timeout=1200, tier="thorough",
                unwindset={"write_unchecked_to": 8, "4find&IndexMap": 8, "drop_glue": 8}) for k in (2,)]   # measured: 315 s and ~20 GB; the other body lengths are not registered
TRUSTED = ["the await points of Response::send (write_all, flush) and its None / Stream / WebSocket branches other than what C17 covers are NOT under a discharged contract (a harness over tokio's AsyncWrite for Vec<u8> did not finish in 15 min): "
           "it adds with_capacity(status line + size [+ body]) and two more push_unchecked! around write_unchecked_to, which is verified"]
ASSUMPTIONS = []
GROUP_JOBS = {"ohkami": 4}   # the smaller (crate, unwindset) groups (IndexMap contracts, complete shapes) get 4 jobs beside the 8 of the header histories: light queries, and the wall was dominated by them running 2 at a time
