# C13 BasicAuth
import os, sys
sys.path.insert(0, os.path.join(os.path.dirname(os.path.abspath(__file__)), "..", "lib"))
from vf import H, C, M

MODULES = [M("ohkami/src/fang/builtin/basicauth.rs", "harness/C13/basicauth.rs")]
CONTRACTS = []
QUICK = set(range(20))
HARNESSES = [H(f"c13_basicauth_contract_k{k:02d}", crate="ohkami", strength="bounded", timeout=900, unwindset={"memchr_naive": 6, "memchr_aligned": 3, "memcmp": 12, "CharSearcher": 6, "spec_utf8": 14, "try_fold": 4}, tier="quick" if k in QUICK else "thorough",
               functions=["<BasicAuth<S> as FangAction>::fore", "<[BasicAuth<S>; 2] as FangAction>::fore", "BasicAuth::matches", "basic_credential_of", "unauthorized"],
               clauses=["Ok(()) iff the Authorization value starts with `Basic `, decoding succeeded, the credential contains ':' and (text before the FIRST colon, text after it) equals a configured pair exactly",
                        "otherwise 401 with a `WWW-Authenticate: Basic` challenge"],
               bound="one harness per shape (header absent / Basic / Bearer / lowercase basic; decoded credential of length 0..=4 with symbolic ASCII bytes or a decode error; configured pair lengths (1,1),(1,2),(2,1),(0,1) with symbolic bytes; single fang or array of 2)")
              for k in range(20)]
HARNESSES += [H(f"c13_matches_contract_k{k:02d}", crate="ohkami", strength="bounded", timeout=600, tier="quick",
               functions=["BasicAuth::matches"],
               clauses=["matches(u, p) == (u == self.username && p == self.password), byte for byte: a longer, shorter, swapped or prefix-sharing string is refused"],
               bound="configured / given user and password of concrete lengths 0..=3 (12 length shapes), symbolic ASCII contents")
              for k in range(12)]
TRUSTED = ["ASSUMED CONTRACT: util::base64_decode_utf8 is stubbed by an arbitrary result (Err, or any ASCII string of the shape's length); the base64 crate is not verified",
           "util::unix_timestamp stubbed (clock)"]
ASSUMPTIONS = ["credentials and configured strings restricted to ASCII of length <= 4 / <= 2"]
JOBS = 6   # several of these queries need 5-10 GB: 16 at once exhaust the machine
