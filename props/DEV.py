import os, sys
sys.path.insert(0, os.path.join(os.path.dirname(os.path.abspath(__file__)), "..", "lib"))
from vf import H, C, M
MODULES = [M("ohkami/src/response/mod.rs", "harness/DEV/send_micro.rs")]
CONTRACTS = []
HARNESSES = [H(n, crate="ohkami", functions=[], clauses=[], timeout=400, expect_covers=False) for n in ["dev_d1_remove_then_drop", "dev_d2_remove_set_drop", "dev_d3_send_none", "dev_d4_send_empty_stream", "dev_d5_send_one_concrete"]]
