import os, sys
sys.path.insert(0, os.path.join(os.path.dirname(os.path.abspath(__file__)), "..", "lib"))
from vf import H, C, M
MODULES = [M("ohkami/src/response/mod.rs", "harness/DEV/send_micro.rs"), M("ohkami/src/response/headers.rs", "harness/DEV/hdr_helper.rs", modname="__verif_devh")]
CONTRACTS = []
HARNESSES = [H(n, crate="ohkami", functions=[], clauses=[], timeout=300, expect_covers=False, unwindset={"write_unchecked_to": 8, "4find&IndexMap": 8, "drop_glue": 8}) for n in ["dev_d6_send_none_empty_headers", "dev_d7_write_only", "dev_d8_send_stream_empty_headers"]]
