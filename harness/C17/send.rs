// C17 — Response::send, Content::Stream branch: the chunk framing of server-sent events.
// Contract (harness contract on the real async fn, the framing is an inline block of it):
//   for a stream yielding the messages m_1..m_n, the bytes written after the response head are a valid chunked body
//   (hex size CRLF data CRLF)* 0 CRLF CRLF whose de-chunked content, read by an event-stream parser written from the
//   WHATWG algorithm (lines end in CRLF, LF or CR; `data` fields joined by LF; dispatch on an empty line), is exactly
//   normalise(m_1)..normalise(m_n) in order (normalise: CRLF / CR -> LF), with no other field and no ignored line.
// Shapes (number of messages, message lengths) are concrete per harness, message bytes symbolic ASCII.
use super::*;
//@include spec/block_on.rs
use vsupport::block_on;
use std::pin::Pin;
use std::task::{Context, Poll};

fn stub_ts() -> u64 { 0 }

/// scripted producer: yields the prepared messages one per poll, then ends
struct Script { msgs: [Option<String>; 2], next: usize }
impl Stream for Script {
    type Item = String;
    fn poll_next(mut self: Pin<&mut Self>, _: &mut Context<'_>) -> Poll<Option<String>> {
        let i = self.next;
        if i < 2 { self.next = i + 1; Poll::Ready(self.msgs[i].take()) } else { Poll::Ready(None) }
    }
}

/// connection: records every write after the first one (the response head, whose length is kept)
struct Sink { head_len: usize, writes: usize, buf: [u8; 96], len: usize }
impl tokio::io::AsyncWrite for Sink {
    fn poll_write(mut self: Pin<&mut Self>, _: &mut Context<'_>, b: &[u8]) -> Poll<std::io::Result<usize>> {
        if self.writes == 0 { self.head_len = b.len(); }
        else {
            let mut i = 0;
            while i < b.len() { let at = self.len; self.buf[at] = b[i]; self.len = at + 1; i += 1; }
        }
        self.writes += 1;
        Poll::Ready(Ok(b.len()))
    }
    fn poll_flush(self: Pin<&mut Self>, _: &mut Context<'_>) -> Poll<std::io::Result<()>> { Poll::Ready(Ok(())) }
    fn poll_shutdown(self: Pin<&mut Self>, _: &mut Context<'_>) -> Poll<std::io::Result<()>> { Poll::Ready(Ok(())) }
}

fn hexval(c: u8) -> Option<usize> {
    if c >= b'0' && c <= b'9' { Some((c - b'0') as usize) } else if c >= b'a' && c <= b'f' { Some((c - b'a') as usize + 10) } else { None }
}
/// reference chunked-coding reader (RFC 9112 §7.1, no extensions, no trailers), one pass over the wire bytes:
/// Some(content length) iff `wire` is exactly  *( 1*HEXDIG CRLF data CRLF ) "0" CRLF CRLF
fn dechunk(wire: &[u8], out: &mut [u8; 96]) -> Option<usize> {
    // st: 0 reading size digits, 1 expecting LF after the size, 2 reading `left` data bytes, 3 expecting CR after data, 4 expecting LF after data,
    //     5 expecting the CR of the final empty line, 6 expecting its LF, 7 complete
    let (mut st, mut size, mut digits, mut left, mut n) = (0u8, 0usize, 0usize, 0usize, 0usize);
    let mut i = 0;
    while i < wire.len() {
        let c = wire[i];
        match st {
            0 => match hexval(c) {
                Some(v) => { if digits >= 3 { return None } size = size * 16 + v; digits += 1; }
                None => { if c != b'\r' || digits == 0 { return None } st = 1; }
            },
            1 => { if c != b'\n' { return None } if size == 0 { st = 5 } else { left = size; st = 2 } }
            2 => { out[n] = c; n += 1; left -= 1; if left == 0 { st = 3 } }
            3 => { if c != b'\r' { return None } st = 4 }
            4 => { if c != b'\n' { return None } st = 0; size = 0; digits = 0; }
            5 => { if c != b'\r' { return None } st = 6 }
            6 => { if c != b'\n' { return None } st = 7 }
            _ => return None,      // bytes after the end of the body
        }
        i += 1;
    }
    if st == 7 { Some(n) } else { None }
}

#[derive(Clone, Copy)]
struct Events { count: usize, len: [usize; 3], data: [[u8; 8]; 3], foreign_line: bool, pending: bool }
/// reference event-stream interpreter (WHATWG HTML §9.2.6), one pass over the content: lines end in CRLF, LF or CR; a line `data`[`:`[SP]value]
/// appends value LF to the data buffer; an empty line dispatches the buffer (minus its last LF) if a data field was seen;
/// any other non-empty line (comment, event/id/retry, unknown field) sets `foreign_line`.
fn interpret(s: &[u8]) -> Events {
    const DATA: [u8; 4] = *b"data";
    let mut ev = Events { count: 0, len: [0; 3], data: [[0; 8]; 3], foreign_line: false, pending: false };
    let mut dbuf = [0u8; 16]; let (mut dlen, mut has_data) = (0usize, false);
    // per line: number of bytes, how much of "data" the name matched (5 = not `data`), whether the colon was seen, whether the optional space was skipped
    let (mut line_len, mut name, mut colon, mut value_bytes, mut prev_cr) = (0usize, 0usize, false, 0usize, false);
    let mut i = 0;
    while i < s.len() {
        let c = s[i];
        if c == b'\n' && prev_cr { prev_cr = false; i += 1; continue }      // the LF of a CRLF
        prev_cr = c == b'\r';
        if c == b'\n' || c == b'\r' {
            // end of line
            if line_len == 0 {
                if has_data {
                    if dlen > 16 { ev.foreign_line = true; dlen = 16 }
                    let mut n = dlen; if n > 0 && dbuf[n - 1] == b'\n' { n -= 1 }
                    if ev.count < 3 { ev.data[ev.count] = [dbuf[0], dbuf[1], dbuf[2], dbuf[3], dbuf[4], dbuf[5], dbuf[6], dbuf[7]]; ev.len[ev.count] = n; }
                    ev.count += 1;
                }
                dlen = 0; has_data = false;
            } else if name == 4 {
                if dlen < 16 { dbuf[dlen] = b'\n'; } dlen += 1; has_data = true;
            } else { ev.foreign_line = true }
            line_len = 0; name = 0; colon = false; value_bytes = 0;
        } else {
            if !colon {
                if c == b':' { colon = true; if name != 4 { name = 5 } }
                else if name < 4 && c == DATA[name] { name += 1 } else { name = 5 }
            } else if name == 4 {
                // value of a data field: one leading space is skipped
                if !(value_bytes == 0 && c == b' ') { if dlen < 16 { dbuf[dlen] = c; } dlen += 1; }
                value_bytes += 1;
            }
            line_len += 1;
        }
        i += 1;
    }
    if has_data || line_len > 0 { ev.pending = true }
    ev
}

/// line-break normalisation of a message (the event-stream format has LF-joined data lines: CRLF and CR both denote a line break)
fn normalise(m: &[u8], out: &mut [u8; 8]) -> usize {
    let (mut i, mut n) = (0, 0);
    while i < m.len() {
        if m[i] == b'\r' { out[n] = b'\n'; n += 1; if i + 1 < m.len() && m[i + 1] == b'\n' { i += 1 } }
        else { out[n] = m[i]; n += 1; }
        i += 1;
    }
    n
}

fn message(len: usize, raw: &[u8; 3]) -> String {
    let v = if len == 0 { vec![] } else if len == 1 { vec![raw[0]] } else if len == 2 { vec![raw[0], raw[1]] } else { vec![raw[0], raw[1], raw[2]] };
    unsafe { String::from_utf8_unchecked(v) }
}

/// shape k: (number of messages, length of the first, length of the second)
fn sse_body(k: usize) {
    const SHAPES: [(usize, usize, usize); 8] = [(1, 0, 0), (1, 1, 0), (1, 2, 0), (1, 3, 0), (2, 1, 1), (2, 0, 1), (2, 2, 0), (0, 0, 0)];
    let (n, l0, l1) = SHAPES[k];
    let raw0: [u8; 3] = kani::any(); let raw1: [u8; 3] = kani::any();
    kani::assume(raw0[0] < 128 && raw0[1] < 128 && raw0[2] < 128 && raw1[0] < 128 && raw1[1] < 128 && raw1[2] < 128);
    let script = Script { msgs: [if n >= 1 { Some(message(l0, &raw0)) } else { None }, if n >= 2 { Some(message(l1, &raw1)) } else { None }], next: 0 };
    let mut res = Response::new(Status::OK);
    res.set_stream_raw(Box::pin(script));
    let mut sink = Sink { head_len: 0, writes: 0, buf: [0; 96], len: 0 };
    let _ = block_on(res.send(&mut sink));
    assert!(sink.writes >= 2 && sink.head_len > 0, "sse: the response head is written first");
    let wire = &sink.buf[..sink.len];
    let mut content = [0u8; 96];
    let clen = dechunk(wire, &mut content);
    assert!(clen.is_some(), "sse: the body is a valid chunked coding ending with the zero chunk");
    let ev = interpret(&content[..clen.unwrap()]);
    assert!(!ev.foreign_line, "sse: every line of the content is a `data` field (no injected event/id/retry field, no comment or unknown-field line)");
    assert!(!ev.pending, "sse: nothing is left undispatched at the end of the stream");
    assert!(ev.count == n, "sse: the parser decodes exactly as many messages as were produced (none lost, merged, split or duplicated)");
    let mut want = [0u8; 8];
    if n >= 1 {
        let wl = normalise(&raw0[..l0], &mut want);
        assert!(ev.len[0] == wl, "sse: first message has the produced length (line breaks normalised)");
        let mut i = 0; while i < wl { assert!(ev.data[0][i] == want[i], "sse: first message decodes to the produced text"); i += 1; }
    }
    if n >= 2 {
        let wl = normalise(&raw1[..l1], &mut want);
        assert!(ev.len[1] == wl, "sse: second message has the produced length (line breaks normalised)");
        let mut i = 0; while i < wl { assert!(ev.data[1][i] == want[i], "sse: second message decodes to the produced text"); i += 1; }
    }
    kani::cover!(n == 0 || l0 == 0 || raw0[0] == b'\n');
}
//@chunks 8 c17_sse_framing_contract sse_body #[kani::proof] #[kani::unwind(40)] #[kani::stub(crate::util::unix_timestamp, stub_ts)]
