// C17 — Response::send, Content::Stream branch: the chunk framing of server-sent events.
// The framing is an inline block of the async fn `send` (a harness over the whole `send` does not get through CBMC: measured, a response
// with NO body already takes 3 min, one concrete message > 5 min).  The block is therefore EXTRACTED MECHANICALLY on every run: the lines
// strictly between `while let Some(chunk) = stream.next().await {` and `conn.write_all(&chunk).await...` are copied verbatim into
// `sse_frame` below (lib/vf.py //@extract; lost markers = exit 2).  Dropped by the extraction: the await points (stream.next(), write_all,
// flush), the response head and the final `0 CRLF CRLF` write (appended by the harness as the code does after the loop).
// Contract: for messages m_1..m_n the bytes frame(m_1) .. frame(m_n) 0 CRLF CRLF are a valid chunked body whose de-chunked content, read by
// an event-stream parser written from the WHATWG algorithm, is exactly normalise(m_1)..normalise(m_n) (CRLF / CR -> LF), nothing else.
use super::*;

fn sse_frame(chunk: String) -> Vec<u8> {
    //@extract ohkami/src/response/mod.rs <<while let Some(chunk) = stream.next().await {>> <<conn.write_all(&chunk).await>>
    chunk
}

fn hexval(c: u8) -> Option<usize> {
    if c >= b'0' && c <= b'9' { Some((c - b'0') as usize) } else if c >= b'a' && c <= b'f' { Some((c - b'a') as usize + 10) } else { None }
}
/// reference chunked-coding reader (RFC 9112 §7.1, no extensions, no trailers), one pass over the wire bytes:
/// Some(content length) iff `wire` is exactly  *( 1*HEXDIG CRLF data CRLF ) "0" CRLF CRLF
fn dechunk(wire: &[u8], out: &mut [u8; 96]) -> Option<usize> {
    // st: 0 reading size digits, 1 expecting LF after the size, 2 reading `left` data bytes, 3 expecting CR after data, 4 expecting LF after data,
    //     5 expecting the CR of the final empty line, 6 expecting its LF, 7 complete
    let (mut st, mut size, mut digits, mut left, mut n) = (0u8, 0usize, 0usize, 0usize, 0usize);
    let mut i = 0;
    while i < wire.len() {
        let c = wire[i];
        match st {
            0 => match hexval(c) {
                Some(v) => { if digits >= 3 { return None } size = size * 16 + v; digits += 1; }
                None => { if c != b'\r' || digits == 0 { return None } st = 1; }
            },
            1 => { if c != b'\n' { return None } if size == 0 { st = 5 } else { left = size; st = 2 } }
            2 => { out[n] = c; n += 1; left -= 1; if left == 0 { st = 3 } }
            3 => { if c != b'\r' { return None } st = 4 }
            4 => { if c != b'\n' { return None } st = 0; size = 0; digits = 0; }
            5 => { if c != b'\r' { return None } st = 6 }
            6 => { if c != b'\n' { return None } st = 7 }
            _ => return None,      // bytes after the end of the body
        }
        i += 1;
    }
    if st == 7 { Some(n) } else { None }
}

#[derive(Clone, Copy)]
struct Events { count: usize, len: [usize; 3], data: [[u8; 16]; 3], foreign_line: bool, pending: bool }
/// reference event-stream interpreter (WHATWG HTML §9.2.6), one pass over the content: lines end in CRLF, LF or CR; a line `data`[`:`[SP]value]
/// appends value LF to the data buffer; an empty line dispatches the buffer (minus its last LF) if a data field was seen;
/// any other non-empty line (comment, event/id/retry, unknown field) sets `foreign_line`.
fn interpret(s: &[u8]) -> Events {
    const DATA: [u8; 4] = *b"data";
    let mut ev = Events { count: 0, len: [0; 3], data: [[0; 16]; 3], foreign_line: false, pending: false };
    let mut dbuf = [0u8; 16]; let (mut dlen, mut has_data) = (0usize, false);
    // per line: number of bytes, how much of "data" the name matched (5 = not `data`), whether the colon was seen, whether the optional space was skipped
    let (mut line_len, mut name, mut colon, mut value_bytes, mut prev_cr) = (0usize, 0usize, false, 0usize, false);
    let mut i = 0;
    while i < s.len() {
        let c = s[i];
        if c == b'\n' && prev_cr { prev_cr = false; i += 1; continue }      // the LF of a CRLF
        prev_cr = c == b'\r';
        if c == b'\n' || c == b'\r' {
            // end of line
            if line_len == 0 {
                if has_data {
                    if dlen > 16 { ev.foreign_line = true; dlen = 16 }
                    let mut n = dlen; if n > 0 && dbuf[n - 1] == b'\n' { n -= 1 }
                    if ev.count < 3 { ev.data[ev.count] = dbuf; ev.len[ev.count] = n; }
                    ev.count += 1;
                }
                dlen = 0; has_data = false;
            } else if name == 4 {
                if dlen < 16 { dbuf[dlen] = b'\n'; } dlen += 1; has_data = true;
            } else { ev.foreign_line = true }
            line_len = 0; name = 0; colon = false; value_bytes = 0;
        } else {
            if !colon {
                if c == b':' { colon = true; if name != 4 { name = 5 } }
                else if name < 4 && c == DATA[name] { name += 1 } else { name = 5 }
            } else if name == 4 {
                // value of a data field: one leading space is skipped
                if !(value_bytes == 0 && c == b' ') { if dlen < 16 { dbuf[dlen] = c; } dlen += 1; }
                value_bytes += 1;
            }
            line_len += 1;
        }
        i += 1;
    }
    if has_data || line_len > 0 { ev.pending = true }
    ev
}

/// line-break normalisation of a message (the event-stream format has LF-joined data lines: CRLF and CR both denote a line break)
fn normalise(m: &[u8], out: &mut [u8; 8]) -> usize {
    let (mut i, mut n) = (0, 0);
    while i < m.len() {
        if m[i] == b'\r' { out[n] = b'\n'; n += 1; if i + 1 < m.len() && m[i + 1] == b'\n' { i += 1 } }
        else { out[n] = m[i]; n += 1; }
        i += 1;
    }
    n
}

fn message(len: usize, raw: &[u8; 3]) -> String {
    let v = if len == 0 { vec![] } else if len == 1 { vec![raw[0]] } else if len == 2 { vec![raw[0], raw[1]] } else { vec![raw[0], raw[1], raw[2]] };
    unsafe { String::from_utf8_unchecked(v) }
}

/// shape k: (number of messages, length of the first, length of the second)
fn sse_body(k: usize) {
    const SHAPES: [(usize, usize, usize); 7] = [(1, 0, 0), (1, 1, 0), (1, 2, 0), (1, 3, 0), (2, 1, 1), (2, 0, 1), (2, 2, 0)];
    let (n, l0, l1) = SHAPES[k];
    let raw0: [u8; 3] = kani::any(); let raw1: [u8; 3] = kani::any();
    kani::assume(raw0[0] < 128 && raw0[1] < 128 && raw0[2] < 128 && raw1[0] < 128 && raw1[1] < 128 && raw1[2] < 128);
    let mut wire_buf = [0u8; 96]; let mut wl = 0usize;
    let f0 = sse_frame(message(l0, &raw0));
    let mut i = 0; while i < f0.len() { if wl < 96 { wire_buf[wl] = f0[i]; } wl += 1; i += 1; }
    if n >= 2 {
        let f1 = sse_frame(message(l1, &raw1));
        let mut i = 0; while i < f1.len() { if wl < 96 { wire_buf[wl] = f1[i]; } wl += 1; i += 1; }
        std::mem::forget(f1);
    }
    std::mem::forget(f0);
    // what `send` writes after the loop
    let end = b"0\r\n\r\n"; let mut i = 0; while i < 5 { if wl < 96 { wire_buf[wl] = end[i]; } wl += 1; i += 1; }
    assert!(wl <= 96, "sse: frames of these messages fit the harness buffer");
    let wire = &wire_buf[..wl];
    let mut content = [0u8; 96];
    let clen = dechunk(wire, &mut content);
    assert!(clen.is_some(), "sse: each frame is `hex(size) CRLF size bytes CRLF`, so the body is a valid chunked coding");
    let ev = interpret(&content[..clen.unwrap()]);
    assert!(!ev.foreign_line, "sse: every line of the content is a `data` field (no injected event/id/retry field, no comment or unknown-field line)");
    assert!(!ev.pending, "sse: nothing is left undispatched at the end of the stream");
    assert!(ev.count == n, "sse: the parser decodes exactly as many messages as were produced (none lost, merged, split or duplicated)");
    let mut want = [0u8; 8];
    let wl0 = normalise(&raw0[..l0], &mut want);
    assert!(ev.len[0] == wl0, "sse: first message has the produced length (line breaks normalised)");
    let mut i = 0; while i < wl0 { assert!(ev.data[0][i] == want[i], "sse: first message decodes to the produced text"); i += 1; }
    if n >= 2 {
        let wl1 = normalise(&raw1[..l1], &mut want);
        assert!(ev.len[1] == wl1, "sse: second message has the produced length (line breaks normalised)");
        let mut i = 0; while i < wl1 { assert!(ev.data[1][i] == want[i], "sse: second message decodes to the produced text"); i += 1; }
    }
    kani::cover!(l0 == 0 || raw0[0] == b'\n');
}
//@chunks 7 c17_sse_framing_contract sse_body #[kani::proof] #[kani::unwind(40)]

/// the same contract on ENUMERATED CONCRETE message sequences (the symbolic shapes above need 20+ min each under CBMC and are not registered):
/// empty message, single line, embedded LF, lone LF, trailing LF, two messages, empty then non-empty, field-like content, CR, CRLF, lone CR
fn sse_concrete_body(k: usize) {
    const SEQS: [&[&str]; 15] = [&[""], &["a"], &["a\nb"], &["\n"], &["ab\n"], &["a", "b"], &["", "x"], &["data: x"], &["a\rb"], &["a\r\nb"], &["\r"], &["x\revent: y"],
        // event sizes 15, 16, 17: around the first chunk-size digit boundary (0xf / 0x10 / 0x11)
        &["abcdefg"], &["abcdefgh", "z"], &["abcdefghi"]];
    let msgs = SEQS[k];
    let mut wire_buf = [0u8; 96]; let mut wl = 0usize;
    let mut m = 0;
    while m < msgs.len() {
        let f = sse_frame(String::from(msgs[m]));
        let mut i = 0; while i < f.len() { if wl < 96 { wire_buf[wl] = f[i]; } wl += 1; i += 1; }
        std::mem::forget(f);
        m += 1;
    }
    let end = b"0\r\n\r\n"; let mut i = 0; while i < 5 { if wl < 96 { wire_buf[wl] = end[i]; } wl += 1; i += 1; }
    assert!(wl <= 96, "sse: frames of these messages fit the harness buffer");
    let mut content = [0u8; 96];
    let clen = dechunk(&wire_buf[..wl], &mut content);
    assert!(clen.is_some(), "sse: each frame is `hex(size) CRLF size bytes CRLF`, so the body is a valid chunked coding");
    let ev = interpret(&content[..clen.unwrap()]);
    assert!(!ev.foreign_line, "sse: every line of the content is a `data` field (no injected event/id/retry field, no comment or unknown-field line)");
    assert!(!ev.pending, "sse: nothing is left undispatched at the end of the stream");
    assert!(ev.count == msgs.len(), "sse: the parser decodes exactly as many messages as were produced (none lost, merged, split or duplicated)");
    let mut m = 0;
    while m < msgs.len() {
        let mut want = [0u8; 16];
        let b = msgs[m].as_bytes();
        let (mut i, mut n) = (0, 0);
        while i < b.len() { if b[i] == b'\r' { want[n] = b'\n'; n += 1; if i + 1 < b.len() && b[i + 1] == b'\n' { i += 1 } } else { want[n] = b[i]; n += 1; } i += 1; }
        assert!(ev.len[m] == n, "sse: each message has the produced length (line breaks normalised to LF)");
        let mut i = 0; while i < n && i < 16 { assert!(ev.data[m][i] == want[i], "sse: each message decodes to the produced text"); i += 1; }
        m += 1;
    }
}
//@chunks 15 c17_sse_framing_concrete sse_concrete_body #[kani::proof] #[kani::unwind(60)]
