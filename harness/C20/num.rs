// C20 — contracts for ohkami_lib/src/num.rs (appended as a cfg(kani) child module of `num`)
use super::*;

fn hex_val(b: u8) -> Option<u64> {
    match b { b'0'..=b'9' => Some((b - b'0') as u64), b'a'..=b'f' => Some((b - b'a') as u64 + 10), _ => None }
}

// hexized_bytes: for ALL usize, 16 lowercase hex digits whose big-endian value is n (fixed 16-iteration loops)
#[kani::proof]
#[kani::unwind(17)]
fn c20_hexized_bytes_contract() {
    let n: usize = kani::any();
    let h = hexized_bytes(n);
    let mut v: u64 = 0;
    let mut i = 0;
    while i < 16 {
        let d = hex_val(h[i]);
        assert!(d.is_some(), "hexized_bytes: every byte is a lowercase hex digit");
        v = (v << 4) | d.unwrap();
        i += 1;
    }
    assert!(v == n as u64, "hexized_bytes: value of the digits is n");
    kani::cover!(n == usize::MAX);
}

// hexized: the String wrapper is valid UTF-8 (all ASCII) of length 16
#[kani::proof]
#[kani::unwind(17)]
fn c20_hexized_string_contract() {
    let n: usize = kani::any();
    let s = hexized(n);
    assert!(s.len() == 16, "hexized: 16 bytes");
    let b = s.as_bytes();
    let mut i = 0;
    while i < 16 { assert!(b[i] < 128, "hexized: ASCII (so from_utf8_unchecked is sound)"); i += 1; }
}

// itoa: memory safety of the raw-pointer writes and length bound on the REAL function, all usize
// (value correctness is the Verus obligation on the mechanically extracted skeleton)
#[kani::proof]
fn c20_itoa_memory_safe_all_usize() {
    let n: usize = kani::any();
    let s = itoa(n);
    assert!(s.len() >= 1 && s.len() <= 20, "itoa: 1..=20 bytes, inside the 20-byte allocation");
    kani::cover!(s.len() == 20);
    kani::cover!(s.len() == 1);
}

// bounded cross-check tying the Verus skeleton to the running code: value correctness of the REAL itoa for n < 100000
// (also the counterexample finder when the Verus obligation fails: Verus gives no model)
#[kani::proof]
#[kani::unwind(7)]
fn c20_itoa_value_below_100000() {
    let n: usize = kani::any();
    kani::assume(n < 100_000);
    let s = itoa(n);
    let b = s.as_bytes();
    assert!(b.len() >= 1 && b.len() <= 5, "itoa(n < 100000): 1..=5 bytes");
    let mut v: usize = 0;
    let mut i = 0;
    while i < b.len() {
        assert!(b[i] >= b'0' && b[i] <= b'9', "itoa: ASCII digit");
        v = v * 10 + (b[i] - b'0') as usize;
        i += 1;
    }
    assert!(v == n, "itoa: decimal value of the digits is n");
    assert!(b.len() == 1 || b[0] != b'0', "itoa: canonical (no leading zero)");
    kani::cover!(n == 99_999);
}

// bounded cross-check at the decade boundaries (where a digit-count decision can go wrong): every n within +-1000 of 10^k, k = 1..=19,
// and the top of the domain; real function, symbolic n inside the window
fn itoa_value_window(k: usize) {
    let mut p: usize = 1;
    let mut i = 0;
    while i < k { p = p * 10; i += 1; }                       // 10^k (k <= 19 fits)
    let (lo, hi) = if k == 0 { (usize::MAX - 2000, usize::MAX) } else { (p - if p > 1000 { 1000 } else { p }, p + 1000) };
    let n: usize = kani::any();
    kani::assume(n >= lo && n <= hi);
    let s = itoa(n);
    let b = s.as_bytes();
    assert!(b.len() >= 1 && b.len() <= 20, "itoa: 1..=20 bytes");
    let mut v: usize = 0;
    let mut i = 0;
    while i < b.len() {
        assert!(b[i] >= b'0' && b[i] <= b'9', "itoa: ASCII digit");
        v = v.wrapping_mul(10).wrapping_add((b[i] - b'0') as usize);
        i += 1;
    }
    assert!(v == n, "itoa: decimal value of the digits is n");
    assert!(b.len() == 1 || b[0] != b'0', "itoa: canonical (no leading zero)");
    kani::cover!(n == hi);
}
//@chunks 20 c20_itoa_value_near_power_of_ten itoa_value_window #[kani::proof] #[kani::unwind(22)]
