// C20 — contracts for ohkami_lib/src/time.rs (appended as a cfg(kani) child module of `time`)
// Every harness here is loop-free or has constant trip counts: full input domain, no bound.
use super::*;

pub(super) const DAY0: i32 = 719_163;            // 1970-01-01 as a day number with 0001-01-01 = 1
pub(super) const MAX_DAYS: i32 = 2_932_896;      // 9999-12-31 is day DAY0 + MAX_DAYS
pub(super) const MAX_TS: u64 = 253_402_300_799;  // 9999-12-31T23:59:59Z

// ---- spec functions (transcribed from the property / RFC 9110, independent of the implementation's algorithm)
pub(super) fn spec_is_leap(y: i32) -> bool { (y % 4 == 0 && y % 100 != 0) || y % 400 == 0 }
/// day number in the proleptic Gregorian calendar, 0001-01-01 = 1 (forward formula: multiplications only)
pub(super) fn spec_ce_day(y: i32, ordinal: i32) -> i32 {
    let p = y - 1;
    365 * p + p / 4 - p / 100 + p / 400 + ordinal
}
pub(super) fn spec_month_len(y: i32, m: i32) -> i32 {
    match m { 1 | 3 | 5 | 7 | 8 | 10 | 12 => 31, 4 | 6 | 9 | 11 => 30, _ => if spec_is_leap(y) { 29 } else { 28 } }
}
/// days since 1970-01-01 of the civil date y-m-d
pub(super) fn spec_days_from_civil(y: i32, m: i32, d: i32) -> i32 {
    const CUM: [i32; 12] = [0, 31, 59, 90, 120, 151, 181, 212, 243, 273, 304, 334];
    let leap_add = if m > 2 && spec_is_leap(y) { 1 } else { 0 };
    spec_ce_day(y, CUM[(m - 1) as usize] + leap_add + d) - DAY0 as i32
}
const SPEC_MONTHS: [&[u8; 3]; 12] = [b"Jan", b"Feb", b"Mar", b"Apr", b"May", b"Jun", b"Jul", b"Aug", b"Sep", b"Oct", b"Nov", b"Dec"];
const SPEC_DAYS: [&[u8; 3]; 7] = [b"Sun", b"Mon", b"Tue", b"Wed", b"Thu", b"Fri", b"Sat"];
fn spec_month_of(b: &[u8]) -> i32 {
    let mut k = 0;
    while k < 12 { if b[8] == SPEC_MONTHS[k][0] && b[9] == SPEC_MONTHS[k][1] && b[10] == SPEC_MONTHS[k][2] { return k as i32 + 1 } k += 1; }
    0
}
fn spec_weekday_of(b: &[u8]) -> i32 {
    let mut k = 0;
    while k < 7 { if b[0] == SPEC_DAYS[k][0] && b[1] == SPEC_DAYS[k][1] && b[2] == SPEC_DAYS[k][2] { return k as i32 } k += 1; }
    -1
}
fn is_digit(b: u8) -> bool { b >= b'0' && b <= b'9' }
/// the fixed layout of IMF-fixdate: `Www, DD Mmm YYYY HH:MM:SS GMT`
fn spec_layout_ok(b: &[u8]) -> bool {
    b.len() == 29
        && b[3] == b',' && b[4] == b' ' && b[7] == b' ' && b[11] == b' ' && b[16] == b' '
        && b[19] == b':' && b[22] == b':' && b[25] == b' ' && b[26] == b'G' && b[27] == b'M' && b[28] == b'T'
        && is_digit(b[5]) && is_digit(b[6])
        && is_digit(b[12]) && is_digit(b[13]) && is_digit(b[14]) && is_digit(b[15])
        && is_digit(b[17]) && is_digit(b[18]) && is_digit(b[20]) && is_digit(b[21]) && is_digit(b[23]) && is_digit(b[24])
}
fn dg(b: &[u8], i: usize) -> i32 { (b[i] - b'0') as i32 }

// ---- validity predicate of the packed Date (the type invariant the formatter relies on)
pub(super) fn date_year(d: &Date) -> i32 { d.0 >> 13 }
pub(super) fn date_ordinal(d: &Date) -> u32 { ((d.0 & 0b1_1111_1111_1111) as u32) >> 4 }
pub(super) fn date_flag(d: &Date) -> u8 { (d.0 & 0b1111) as u8 }
pub(super) fn date_valid(d: &Date) -> bool {
    let (y, o) = (date_year(d), date_ordinal(d));
    y >= 1970 && y <= 9999 && o >= 1 && o <= (if spec_is_leap(y as i32) { 366 } else { 365 })
        && date_flag(d) == YearFlag::from_year(y).0
}
/// postcondition of `Date::from_days` (relational: no second algorithm)
pub(super) fn from_days_post(days: i32, d: &Date) -> bool {
    date_valid(d) && spec_ce_day(date_year(d) as i32, date_ordinal(d) as i32) == days as i32
}

impl kani::Arbitrary for Date { fn any() -> Self { Date(kani::any()) } }

// ---- domain partition: 16 chunks of 502 years cover 1970..=9999 (1970 + 16*502 = 10002 > 9999).  Every chunk is a fully
// symbolic query; the union is the whole domain.  (One query over all 8030 years is SAT-hard: > 10 min; a chunk takes seconds.)
pub(super) const CHUNKS: i32 = 16;
pub(super) const CHUNK_YEARS: i32 = 502;
fn chunk_years(k: i32) -> (i32, i32) {
    let lo = 1970 + k * CHUNK_YEARS;
    let hi = if lo + CHUNK_YEARS - 1 > 9999 { 9999 } else { lo + CHUNK_YEARS - 1 };
    (lo, hi)
}
/// day numbers (0001-01-01 = 1) of the first and last day of chunk k
fn chunk_days(k: i32) -> (i32, i32) {
    let (lo, hi) = chunk_years(k);
    (spec_ce_day(lo, 1), spec_ce_day(hi + 1, 1) - 1)
}
/// unix timestamps of the first and last second of chunk k
fn chunk_ts(k: i32) -> (u64, u64) {
    let (lo, hi) = chunk_days(k);
    ((lo - DAY0) as u64 * 86_400, (hi - DAY0) as u64 * 86_400 + 86_399)
}
// the partition is exhaustive: first chunk starts at the lower end of the domain, consecutive chunks are adjacent, last chunk ends at the upper end
#[kani::proof]
#[kani::unwind(18)]
fn c20_partition_covers_domain() {
    assert!(chunk_years(0).0 == 1970 && chunk_years(CHUNKS - 1).1 == 9999, "year chunks span 1970..=9999");
    assert!(chunk_days(0).0 == DAY0 && chunk_days(CHUNKS - 1).1 == DAY0 + MAX_DAYS, "day chunks span the day range");
    assert!(chunk_ts(0).0 == 0 && chunk_ts(CHUNKS - 1).1 == MAX_TS, "timestamp chunks span 0..=253402300799");
    let mut k = 0;
    while k + 1 < CHUNKS {
        assert!(chunk_years(k).1 + 1 == chunk_years(k + 1).0, "year chunks adjacent");
        assert!(chunk_days(k).1 + 1 == chunk_days(k + 1).0, "day chunks adjacent");
        assert!(chunk_ts(k).1 + 1 == chunk_ts(k + 1).0, "timestamp chunks adjacent");
        k += 1;
    }
}

// ---- 1. Time::hms (const fn: harness contract)
#[kani::proof]
fn c20_hms_contract() {
    let secs: u32 = kani::any();
    kani::assume(secs < 86_400);
    let (h, m, s) = Time::from_seconds(secs).hms();
    assert!(h < 24 && m < 60 && s < 60, "hms: fields in range");
    assert!(3600 * h + 60 * m + s == secs, "hms: 3600h+60m+s == secs");
    kani::cover!(h == 23 && m == 59 && s == 59);
}

// ---- 2. YearFlag::from_year: leap bit and weekday of 1 January, all 400 residues (and all years by the 400-year period)
#[kani::proof]
fn c20_year_flag_contract() {
    let y: i32 = kani::any();
    kani::assume(y >= 1970 && y <= 9999);
    let f = YearFlag::from_year(y).0;
    assert!(f < 16, "from_year: flag is 4 bits");
    assert!(((f & 0b1000) == 0) == spec_is_leap(y as i32), "from_year: leap bit <=> Gregorian leap rule");
    // weekday of ordinal 1 through the real Of::weekday == weekday of the day number (0001-01-01 was a Monday; day 1 % 7 == 1 == Mon in num_days_from_sunday)
    let wd = Of::new(1, YearFlag(f)).weekday().num_days_from_sunday();
    assert!(wd as i32 == spec_ce_day(y as i32, 1) % 7, "from_year: weekday of 1 January");
    kani::cover!(y == 2000);
}

// ---- 3. Mdf::from_of: (month, day) against the cumulative month-length table, all ordinals x flags
#[kani::proof]
fn c20_mdf_contract() {
    let y: i32 = kani::any();
    kani::assume(y >= 1970 && y <= 2400);   // 431 consecutive years cover all 400 residues, i.e. every (flag) value from_year can return
    let flag = YearFlag::from_year(y);
    let ordinal: u32 = kani::any();
    kani::assume(ordinal >= 1 && ordinal <= if spec_is_leap(y as i32) { 366 } else { 365 });
    let date = Date::from_ordinal_and_flags(y, ordinal, flag);
    let (m, d) = (date.month_index() as i32 + 1, date.day() as i32);
    assert!(m >= 1 && m <= 12, "mdf: month in 1..=12");
    assert!(d >= 1 && d <= spec_month_len(y as i32, m), "mdf: day valid for the month");
    assert!(spec_days_from_civil(y as i32, m, d) + DAY0 as i32 == spec_ce_day(y as i32, ordinal as i32), "mdf: (month, day) is the ordinal-th day of the year");
    kani::cover!(m == 2 && d == 29);
    kani::cover!(m == 12 && d == 31 && ordinal == 366);
}

// ---- 4. Of::weekday: (weekday of 1 Jan + ordinal - 1) mod 7
//@chunks 16 c20_weekday_contract weekday_contract_body #[kani::proof]
fn weekday_contract_body(k: i32) {
    let y: i32 = kani::any();
    let (ylo, yhi) = chunk_years(k);
    kani::assume(y >= ylo && y <= yhi);
    let ordinal: u32 = kani::any();
    kani::assume(ordinal >= 1 && ordinal <= if spec_is_leap(y as i32) { 366 } else { 365 });
    let date = Date::from_ordinal_and_flags(y, ordinal, YearFlag::from_year(y));
    let wd = date.weekday().num_days_from_sunday() as i32;
    assert!(wd == spec_ce_day(y as i32, ordinal as i32) % 7, "weekday: equals day number mod 7 (Sunday = 0)");
    kani::cover!(wd == 6);
}

// ---- 5. Date::from_days: attribute contract (injected above the fn), proved for the whole range
//@chunks 16 c20_from_days_contract from_days_contract_body #[kani::proof_for_contract(Date::from_days)]
fn from_days_contract_body(k: i32) {
    let days: i32 = kani::any();
    let (lo, hi) = chunk_days(k);
    kani::assume(days >= lo && days <= hi);
    let _ = Date::from_days(days);
}

// the same obligation as a plain harness: natively replayable (an attribute contract exists only under cfg(kani), so a
// falsified proof_for_contract harness cannot be replayed against the compiled code; this twin can)
//@chunks 16 c20_from_days_replayable from_days_replayable_body #[kani::proof]
fn from_days_replayable_body(k: i32) {
    let days: i32 = kani::any();
    let (lo, hi) = chunk_days(k);
    kani::assume(days >= lo && days <= hi);
    let d = Date::from_days(days);
    assert!(from_days_post(days, &d), "from_days: year/ordinal/flag valid and 365(y-1)+(y-1)/4-(y-1)/100+(y-1)/400+ordinal == days");
}

// ---- 6. UTCDateTime::from_unix_timestamp: attribute contract, proved modularly on top of the contract of from_days
//@chunks 16 c20_from_unix_timestamp_contract from_unix_timestamp_contract_body #[kani::proof_for_contract(UTCDateTime::from_unix_timestamp)] #[kani::stub_verified(Date::from_days)]
fn from_unix_timestamp_contract_body(k: i32) {
    let t: u64 = kani::any();
    let (lo, hi) = chunk_ts(k);
    kani::assume(t >= lo && t <= hi);
    let _ = UTCDateTime::from_unix_timestamp(t);
}

// ---- 7. UTCDateTime::into_imf_fixdate: layout + every field is the decimal / table name of the corresponding date field
//@chunks 16 c20_into_imf_fixdate_contract into_imf_fixdate_contract_body #[kani::proof] #[kani::unwind(14)]
fn into_imf_fixdate_contract_body(k: i32) {
    let date: Date = kani::any();
    kani::assume(date_valid(&date));
    let (ylo, yhi) = chunk_years(k);
    kani::assume(date_year(&date) >= ylo && date_year(&date) <= yhi);
    let secs: u32 = kani::any();
    kani::assume(secs < 86_400);
    let (year, ordinal) = (date_year(&date) as i32, date_ordinal(&date) as i32);
    let s = UTCDateTime { date, time: Time { secs } }.into_imf_fixdate();
    let b = s.as_bytes();
    assert!(spec_layout_ok(b), "imf: 29 bytes, fixed punctuation, digits in the numeric fields");
    let (m, d) = (spec_month_of(b), dg(b, 5) * 10 + dg(b, 6));
    let y = dg(b, 12) * 1000 + dg(b, 13) * 100 + dg(b, 14) * 10 + dg(b, 15);
    let (hh, mm, ss) = (dg(b, 17) * 10 + dg(b, 18), dg(b, 20) * 10 + dg(b, 21), dg(b, 23) * 10 + dg(b, 24));
    assert!(y == year, "imf: printed year");
    assert!(m >= 1 && m <= 12 && d >= 1 && d <= spec_month_len(y, m), "imf: printed month/day exist");
    assert!(spec_days_from_civil(y, m, d) + DAY0 as i32 == spec_ce_day(year, ordinal), "imf: printed date is the date of (year, ordinal)");
    assert!(hh < 24 && mm < 60 && ss < 60 && 3600 * hh + 60 * mm + ss == secs as i32, "imf: printed time is the second of day");
    assert!(spec_weekday_of(b) == spec_ce_day(year, ordinal) % 7, "imf: printed weekday name");
    kani::cover!(m == 2 && d == 29 && hh == 23);
}

// ---- 8. the property clause itself: the string produced for a timestamp DENOTES that timestamp.
// Composed from the proved contract of UTCDateTime::from_unix_timestamp (stub_verified: its body is replaced by
// its contract, which in turn was proved over the contract of Date::from_days) and the real into_imf_fixdate.
// "Denotes" is stated relationally (multiplications, no division of t): days*86400 + seconds-of-day == t.
impl kani::Arbitrary for UTCDateTime { fn any() -> Self { UTCDateTime { date: kani::any(), time: Time { secs: kani::any() } } } }

pub(super) fn from_unix_timestamp_post(t: u64, r: &UTCDateTime) -> bool {
    date_valid(&r.date) && r.time.secs < 86_400
        && (spec_ce_day(date_year(&r.date), date_ordinal(&r.date) as i32) - DAY0) as u64 * 86_400 + r.time.secs as u64 == t
}

fn parse_back(t: u64) -> (i32, i32, i32, i32, i32, i32, i32) {
    let s = imf_fixdate(t);
    let b = s.as_bytes();
    assert!(spec_layout_ok(b), "imf_fixdate(t): IMF-fixdate layout");
    (
        dg(b, 12) * 1000 + dg(b, 13) * 100 + dg(b, 14) * 10 + dg(b, 15),
        spec_month_of(b),
        dg(b, 5) * 10 + dg(b, 6),
        dg(b, 17) * 10 + dg(b, 18), dg(b, 20) * 10 + dg(b, 21), dg(b, 23) * 10 + dg(b, 24),
        spec_weekday_of(b),
    )
}

//@chunks 16 c20_imf_fixdate_denotes_instant denotes_instant_body #[kani::proof] #[kani::unwind(14)] #[kani::stub_verified(UTCDateTime::from_unix_timestamp)]
fn denotes_instant_body(k: i32) {
    let t: u64 = kani::any();
    let (lo, hi) = chunk_ts(k);
    kani::assume(t >= lo && t <= hi);
    let (y, m, d, hh, mm, ss, _) = parse_back(t);
    assert!(m >= 1 && m <= 12 && d >= 1 && d <= spec_month_len(y, m), "imf_fixdate(t): month/day exist in that year");
    assert!(hh < 24 && mm < 60 && ss < 60, "imf_fixdate(t): time fields in range");
    assert!(spec_days_from_civil(y, m, d) as u64 * 86_400 + (3600 * hh + 60 * mm + ss) as u64 == t,
        "imf_fixdate(t): days_from_civil(Y,M,D)*86400 + HH*3600+MM*60+SS == t");
}

//@chunks 16 c20_imf_fixdate_denotes_weekday denotes_weekday_body #[kani::proof] #[kani::unwind(14)] #[kani::stub_verified(UTCDateTime::from_unix_timestamp)]
fn denotes_weekday_body(k: i32) {
    let t: u64 = kani::any();
    let (lo, hi) = chunk_ts(k);
    kani::assume(t >= lo && t <= hi);
    let (y, m, d, _, _, _, wd) = parse_back(t);
    kani::assume(m >= 1 && m <= 12);   // proved by c20_imf_fixdate_denotes_instant
    // 1970-01-01 was a Thursday (Sunday = 0)
    assert!(wd == (spec_days_from_civil(y, m, d) + 4) % 7, "imf_fixdate(t): weekday name of the printed date");
}
