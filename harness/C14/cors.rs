// C14 — fang::builtin::cors: CORSProc::bite applies the configured policy to whatever response the inner proc produced, and
// Handler::default_options_with (the auto-registered OPTIONS handler the CORS fang builds on) admits a preflight iff the
// requested method is one of the methods handed to it (plus HEAD with GET, plus OPTIONS).
// Which methods are handed to default_options_with for a path is decided at registration time (router/base.rs) and is NOT
// under contract here.
use super::*;
//@include spec/block_on.rs
use vsupport::block_on;
use ohkami_lib::{CowSlice, Slice};
use crate::request::RequestHeader;
use crate::fang::FangProcCaller;
use crate::fang::handler::Handler;
use crate::Method;
/// ASSUMED CONTRACT of core::str::from_utf8 restricted to the inputs of these harnesses: every request header value built here is ASCII by
/// construction (kani::assume on the symbolic bytes), and ASCII is valid UTF-8.  (The general reference validator spec/utf8.rs forks on every
/// byte and made these queries take 15 min; measured.)
fn stub_from_utf8(v: &[u8]) -> Result<&str, std::str::Utf8Error> {
    let mut i = 0; let mut ascii = true;
    while i < v.len() { if v[i] >= 0x80 { ascii = false } i += 1; }
    kani::assume(ascii);
    Ok(unsafe { std::str::from_utf8_unchecked(v) })
}

fn stub_ts() -> u64 { 0 }
fn eqb(a: &[u8], b: &[u8]) -> bool { if a.len() != b.len() { return false } let mut i = 0; while i < a.len() { if a[i] != b[i] { return false } i += 1; } true }
fn is(got: Option<&str>, want: Option<&[u8]>) -> bool {
    match (got, want) { (None, None) => true, (Some(g), Some(w)) => eqb(g.as_bytes(), w), _ => false }
}

/// inner proc: answers with the given status and a 2-byte text body (so Content-Type / Content-Length are present before CORS acts)
struct Inner { status: u8 }
impl FangProc for Inner {
    async fn bite<'b>(&'b self, _req: &'b mut Request) -> Response {
        let mut res = Response::new(match self.status { 0 => Status::OK, 1 => Status::NotImplemented, 2 => Status::NotFound, _ => Status::BadRequest });
        res.set_text("hi");
        res
    }
}

/// shape bits: 0 wildcard origin, 1 credentials requested, 2 expose headers, 3 max-age, 4 configured allow-headers,
///             5 request is OPTIONS, 6 request carries Access-Control-Request-Headers;  inner status = shape / 128 (0..4)
fn cors_body(shape: usize) {
    // every bit is a compile-time constant of the harness (the shape of the execution is concrete, only the echoed header bytes are symbolic)
    let (any, cred, expose, maxage, allowh, options, acrh) = (shape & 1 != 0, shape & 2 != 0, shape & 4 != 0, shape & 8 != 0, shape & 16 != 0, shape & 32 != 0, shape & 64 != 0);
    let inner_status = (shape / 128) as u8;
    let mut cors = CORS::new(if any { "*" } else { "https://a.example" });
    if cred { cors = cors.AllowCredentials(); }
    if expose { cors = cors.ExposeHeaders(["X-A", "X-B"]); }
    // the configured max-age takes the boundary values of u32 across the shapes (0 is a meaningful value: `do not cache`)
    const AGES: [(u32, &[u8]); 4] = [(600, b"600"), (0, b"0"), (1, b"1"), (u32::MAX, b"4294967295")];
    let (age, age_text) = AGES[(shape / 128 + shape / 64) % 4];
    if maxage { cors = cors.MaxAge(age); }
    if allowh { cors = cors.AllowHeaders(["X-C"]); }
    let proc_ = cors.chain(Inner { status: inner_status });
    let mut req = Request::init(std::net::IpAddr::V4(std::net::Ipv4Addr::new(127, 0, 0, 1)));
    req.method = if options { Method::OPTIONS } else { Method::GET };
    let echoed: &'static mut [u8; 3] = Box::leak(Box::new(kani::any()));
    kani::assume(echoed[0] >= 0x21 && echoed[0] < 0x7f && echoed[1] >= 0x21 && echoed[1] < 0x7f && echoed[2] >= 0x21 && echoed[2] < 0x7f);
    let echoed_copy = *echoed;
    if acrh { req.headers.append(RequestHeader::AccessControlRequestHeaders, CowSlice::Ref(Slice::from_bytes(&echoed[..]))); }
    let res = block_on(proc_.bite(&mut req));
    let h = &res.headers;
    // every response
    assert!(is(h.AccessControlAllowOrigin(), Some(if any { b"*" } else { b"https://a.example" })), "CORS: Access-Control-Allow-Origin equals the configured origin on every response");
    assert!(is(h.AccessControlAllowCredentials(), if cred && !any { Some(b"true") } else { None }), "CORS: Access-Control-Allow-Credentials: true iff credentials were enabled on a non-wildcard origin");
    assert!(is(h.AccessControlExposeHeaders(), if expose { Some(b"X-A, X-B") } else { None }), "CORS: the configured exposed headers, on every response");
    if options {
        assert!(is(h.AccessControlMaxAge(), if maxage { Some(age_text) } else { None }), "CORS preflight: the configured max-age (0 included)");
        let want_allow: Option<&[u8]> = if allowh { Some(b"X-C") } else if acrh { Some(&echoed_copy[..]) } else { None };
        assert!(is(h.AccessControlAllowHeaders(), want_allow), "CORS preflight: the configured request headers, else the echoed Access-Control-Request-Headers");
        if inner_status == 1 {
            assert!(res.status == Status::OK, "CORS preflight: a valid preflight (501 from the default OPTIONS handler) succeeds");
            assert!(h.ContentType().is_none() && h.ContentLength().is_none(), "CORS preflight: the successful preflight declares no body");
        } else {
            assert!(res.status == (match inner_status { 0 => Status::OK, 2 => Status::NotFound, _ => Status::BadRequest }), "CORS preflight: any other inner status (400 for an unregistered method, 404) is passed through");
        }
    } else {
        assert!(h.AccessControlMaxAge().is_none() && h.AccessControlAllowHeaders().is_none() && h.AccessControlAllowMethods().is_none(), "CORS: preflight-only headers are not put on ordinary responses");
        assert!(res.status == (match inner_status { 0 => Status::OK, 1 => Status::NotImplemented, 2 => Status::NotFound, _ => Status::BadRequest }), "CORS: the status of an ordinary response is untouched");
        assert!(is(h.ContentLength(), Some(b"2")), "CORS: the body declaration of an ordinary response is untouched");
    }
    // drop glue of the response / request / proc is not under contract (and is what makes the query explode: measured 12 s vs. out of memory)
    std::mem::forget(res); std::mem::forget(req); std::mem::forget(proc_);
    kani::cover!(true);
}
//@chunks 512 c14_cors_bite_contract cors_body #[kani::proof] #[kani::unwind(24)] #[kani::stub(crate::util::unix_timestamp, stub_ts)] #[kani::stub(std::str::from_utf8, stub_from_utf8)]

/// default OPTIONS handler: k -> (registered methods, length of the requested method token)
fn options_body(k: usize) {
    const LISTS: [&[&str]; 4] = [&["GET"], &["POST"], &["GET", "PATCH"], &["PUT", "DELETE"]];
    let list = LISTS[k % 4];
    let present = k / 4 < 5;                // k / 4 == 5: no Access-Control-Request-Method header
    let tlen = if present { 3 + (k / 4) } else { 3 };                 // token lengths 3..=7
    let handler = Handler::default_options_with(Vec::from(list));
    let mut req = Request::init(std::net::IpAddr::V4(std::net::Ipv4Addr::new(127, 0, 0, 1)));
    req.method = Method::OPTIONS;
    let tok: &'static mut [u8; 7] = Box::leak(Box::new(kani::any()));
    let mut i = 0; while i < 7 { kani::assume(tok[i] >= 0x20 && tok[i] < 0x7f); i += 1; }
    if present { req.headers.append(RequestHeader::AccessControlRequestMethod, CowSlice::Ref(Slice::from_bytes(&tok[..tlen]))); }
    let tokc = *tok;
    let res = block_on(handler.proc.call_bite(&mut req));
    // reference: the registered methods, plus HEAD with GET, plus OPTIONS
    let t = &tokc[..tlen];
    let mut registered = eqb(t, b"OPTIONS");
    let mut j = 0; while j < list.len() { if eqb(t, list[j].as_bytes()) { registered = true } if eqb(list[j].as_bytes(), b"GET") && eqb(t, b"HEAD") { registered = true } j += 1; }
    if !present {
        assert!(res.status == Status::NotFound, "default OPTIONS: without Access-Control-Request-Method the answer is 404");
    } else if registered {
        assert!(res.status == Status::NotImplemented, "default OPTIONS: a preflight for a registered method is the valid-preflight marker (501, turned into 200 by the CORS fang)");
    } else {
        assert!(res.status == Status::BadRequest, "default OPTIONS: a preflight for a method that is not registered for the path fails with 400");
    }
    if present {
        let want: &[u8] = match k % 4 { 0 => b"GET, HEAD, OPTIONS", 1 => b"POST, OPTIONS", 2 => b"GET, PATCH, HEAD, OPTIONS", _ => b"PUT, DELETE, OPTIONS" };
        assert!(is(res.headers.AccessControlAllowMethods(), Some(want)), "default OPTIONS: advertises exactly the registered methods (plus HEAD with GET, plus OPTIONS)");
    }
    std::mem::forget(res); std::mem::forget(req);
    kani::cover!(!present || !registered);
}
//@chunks 24 c14_default_options_contract options_body #[kani::proof] #[kani::unwind(30)] #[kani::stub(crate::util::unix_timestamp, stub_ts)] #[kani::stub(std::str::from_utf8, stub_from_utf8)]

/// concrete probes of the same contract: tokens that are NOT a registered method but share text with the advertised list (substrings, the
/// separator, case variants, padded names) must all be refused with 400; one token per harness
fn options_concrete_body(k: usize) {
    const BAD: [&[u8]; 12] = [b"PAT", b"PATC", b"EAD", b"GE", b"T", b",", b", ", b"GET,", b"GET, PATCH", b"get", b" GET", b"OPTION"];
    const GOOD: [&[u8]; 4] = [b"GET", b"PATCH", b"HEAD", b"OPTIONS"];
    let handler = Handler::default_options_with(vec!["GET", "PATCH"]);
    let tok: &'static [u8] = if k < 12 { BAD[k] } else { GOOD[k - 12] };
    let mut req = Request::init(std::net::IpAddr::V4(std::net::Ipv4Addr::new(127, 0, 0, 1)));
    req.method = Method::OPTIONS;
    req.headers.append(RequestHeader::AccessControlRequestMethod, CowSlice::Ref(Slice::from_bytes(tok)));
    let res = block_on(handler.proc.call_bite(&mut req));
    if k < 12 { assert!(res.status == Status::BadRequest, "default OPTIONS: a token that is not exactly a registered method is refused with 400"); }
    else { assert!(res.status == Status::NotImplemented, "default OPTIONS: a registered method is the valid-preflight marker"); }
    std::mem::forget(res); std::mem::forget(req);
}
//@chunks 16 c14_default_options_concrete options_concrete_body #[kani::proof] #[kani::unwind(30)] #[kani::stub(crate::util::unix_timestamp, stub_ts)] #[kani::stub(std::str::from_utf8, stub_from_utf8)]

/// CORS::AllowCredentials on a wildcard origin is refused by the builder (so `credentials => non-wildcard` holds for every configuration)
#[kani::proof]
#[kani::unwind(8)]
fn c14_builder_credentials_need_explicit_origin() {
    let c = CORS::new("*").AllowCredentials();
    assert!(!c.AllowCredentials && c.AllowOrigin.is_any(), "CORS builder: credentials are not enabled on a wildcard origin");
    let d = CORS::new("https://a.example").AllowCredentials();
    assert!(d.AllowCredentials && !d.AllowOrigin.is_any(), "CORS builder: credentials are enabled on an explicit origin");
}
