// C02 — accessor for the raw query bytes (the field is private to this module)
use super::*;
impl QueryParams { pub(crate) unsafe fn __verif_bytes(&self) -> &[u8] { self.0.as_bytes() } }
