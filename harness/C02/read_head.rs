// C02 — the request-line / header-block parsing of Request::read.  A harness over the whole async `read` does not get through CBMC (DESIGN §2),
// so the synchronous parsing block -- from `let mut r = Reader::new(..)` to the computation of `content_length`, i.e. everything between the
// first `stream.read` and the body read -- is EXTRACTED VERBATIM on every run (lib/vf.py //@extract) into a method with the same `self`.
// Dropped by the extraction: the two await points (the first read and read_payload, the latter under contract in C06) and the final
// PAYLOAD_LIMIT match.  Inputs: enumerated concrete request heads (well-formed and malformed).
use super::*;
use ohkami_lib::{Slice as VSlice};
fn stub_ts() -> u64 { 0 }
fn stub_format(_: std::fmt::Arguments<'_>) -> String { String::new() }
/// ASSUMED CONTRACT of core::str::from_utf8 for the ASCII bytes of these probes
fn ascii_from_utf8(v: &[u8]) -> Result<&str, std::str::Utf8Error> {
    let mut i = 0; let mut ascii = true;
    while i < v.len() { if v[i] >= 0x80 { ascii = false } i += 1; }
    kani::assume(ascii);
    Ok(unsafe { std::str::from_utf8_unchecked(v) })
}
fn eqb(a: &[u8], b: &[u8]) -> bool { if a.len() != b.len() { return false } let mut i = 0; while i < a.len() { if a[i] != b[i] { return false } i += 1; } true }

impl Request {
    /// Ok(Some((content_length, bytes of the read that follow the head))) | Ok(None) (connection is closed) | Err(error response)
    fn __verif_parse_head(mut self: Pin<&mut Self>, read_len: usize) -> Result<Option<(usize, usize)>, crate::Response> {
        use crate::Response;
        //@extract ohkami/src/request/mod.rs <<+let mut r = Reader::new(unsafe {>> <<match content_length {>>
        Ok(Some((content_length, r.remaining().len())))
    }
}

#[derive(Clone, Copy, PartialEq)]
enum Want { Parsed, Closed, Refused }
struct Case { wire: &'static [u8], want: Want, method: Method, path: &'static [u8], query: &'static [u8], content_length: usize, after_head: usize }
const fn ok(wire: &'static [u8], method: Method, path: &'static [u8], query: &'static [u8], content_length: usize, after_head: usize) -> Case { Case { wire, want: Want::Parsed, method, path, query, content_length, after_head } }
const fn bad(wire: &'static [u8], want: Want) -> Case { Case { wire, want, method: Method::GET, path: b"", query: b"", content_length: 0, after_head: 0 } }
const CASES: [Case; 17] = [
    ok(b"GET / HTTP/1.1\r\n\r\n", Method::GET, b"/", b"", 0, 0),
    ok(b"POST /a/b?x=1&y=2 HTTP/1.1\r\nHost: h\r\nContent-Length: 3\r\n\r\nabc", Method::POST, b"/a/b", b"x=1&y=2", 3, 3),
    ok(b"GET /x/ HTTP/1.1\r\nAccept: a\r\n\r\n", Method::GET, b"/x", b"", 0, 0),
    ok(b"DELETE /k HTTP/1.1\r\nContent-Length: 0\r\n\r\nGET /next", Method::DELETE, b"/k", b"", 0, 9),
    bad(b"BREW / HTTP/1.1\r\n\r\n", Want::Closed),                       // unknown method: the connection is closed
    bad(b"GET / HTTP/1.0\r\n\r\n", Want::Refused),                        // other version
    bad(b"GET /\r\n\r\n", Want::Refused),                                 // no version
    bad(b"GET x HTTP/1.1\r\n\r\n", Want::Refused),                        // target not in origin form
    bad(b"GET / HTTP/1.1\r\nHost\r\n\r\n", Want::Refused),                // header line without `: `
    bad(b"GET / HTTP/1.1\r\nHost: h\r\n", Want::Refused),                 // head not terminated by an empty line
    bad(b"GET /abc", Want::Refused),                                      // target runs to the end of the input
    bad(b"GET", Want::Refused),                                           // method only
    bad(b"GET / HTTP/1.1\r\nContent-Length: 1x\r\n\r\n", Want::Refused),  // Content-Length is not a number
    bad(b"GET / HTTP/1.1\r\nContent-Length: 99999999999999999999999\r\n\r\n", Want::Refused),   // Content-Length does not fit
    bad(b"GET / HTTP/1.1\r\nContent-Length: -1\r\n\r\n", Want::Refused),
    bad(b"GET /?q", Want::Refused),                                       // query runs to the end of the input
    ok(b"GET / HTTP/1.1\r\nX-A: 1\r\n\r\n", Method::GET, b"/", b"", 0, 0),     // a custom header
];

fn read_head_body(k: usize) {
    let c = &CASES[k];
    let mut req = Request::init(std::net::IpAddr::V4(std::net::Ipv4Addr::new(127, 0, 0, 1)));
    let mut i = 0; while i < c.wire.len() { req.__buf__[i] = c.wire[i]; i += 1; }
    let r = unsafe { Pin::new_unchecked(&mut req) }.__verif_parse_head(c.wire.len());
    match c.want {
        Want::Parsed => {
            assert!(matches!(&r, Ok(Some((cl, rest))) if *cl == c.content_length && *rest == c.after_head), "request head: parsed; Content-Length and the number of bytes following the head are what the wire bytes denote");
            assert!(req.method == c.method, "request head: the method on the wire");
            assert!(eqb(unsafe { req.path.normalized_bytes() }, if c.path.len() == 1 { b"" } else { c.path }), "request head: the path on the wire (one trailing slash ignored)");
            assert!(eqb(unsafe { req.query.__verif_bytes() }, c.query), "request head: the query string on the wire");
            if k == 1 { assert!(matches!(req.headers.Host(), Some("h")) && matches!(req.headers.ContentLength(), Some("3")), "request head: header values on the wire"); }
            if k == 2 { assert!(matches!(req.headers.Accept(), Some("a")), "request head: header value on the wire"); }    // joining of repeated headers: c02_headers_append_* (harness/C02/headers.rs)
            if k == 16 { assert!(matches!(req.headers.get("X-A"), Some("1")), "request head: custom header"); }
        }
        Want::Closed => assert!(matches!(&r, Ok(None)), "request head: an unknown method closes the connection (no handler, no panic)"),
        Want::Refused => assert!(matches!(&r, Err(res) if (res.status.code() >= 400)), "request head: malformed bytes are answered with an error response, never a panic or a parsed request"),
    }
    std::mem::forget(r); std::mem::forget(req);
}
//@chunks 17 c02_read_head_concrete read_head_body #[kani::proof] #[kani::unwind(90)] #[kani::stub(crate::util::unix_timestamp, stub_ts)] #[kani::stub(alloc::fmt::format, stub_format)] #[kani::stub(std::str::from_utf8, ascii_from_utf8)]
