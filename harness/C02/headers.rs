// C02 — request::headers: header-name recognition and value joining
use super::*;

// observers for the keep-alive frame contract (no UTF-8 validation, which dominates CBMC's cost otherwise)
impl Headers {
    pub(crate) fn v_standard_count(&self) -> usize { let mut n = 0; for _ in self.standard.iter() { n += 1; } n }
    pub(crate) fn v_any_standard(&self) -> bool {
        let mut i = 0;
        while i < N_CLIENT_HEADERS { if unsafe { self.standard.get(i) }.is_some() { return true } i += 1; }
        false
    }
    pub(crate) fn v_custom_count(&self) -> usize { match &self.custom { None => 0, Some(m) => { let mut n = 0; for _ in m.iter() { n += 1; } n } } }
}

fn lower(b: u8) -> u8 { if b >= b'A' && b <= b'Z' { b + 32 } else { b } }

/// soundness for ARBITRARY bytes: a recognised name equals the standard name up to ASCII case
#[kani::proof]
#[kani::unwind(34)]
fn c02_header_from_bytes_sound() {
    const L: usize = 12;
    let raw: [u8; L] = kani::any();
    let n: usize = kani::any();
    kani::assume(n <= L);
    let name = &raw[..n];
    if let Some(h) = Header::from_bytes(name) {
        let s = h.as_str().as_bytes();
        assert!(s.len() == n, "from_bytes: recognised name has the standard name's length");
        let mut i = 0;
        while i < n { assert!(lower(name[i]) == lower(s[i]), "from_bytes: recognised name equals the standard name up to ASCII case"); i += 1; }
    }
    kani::cover!(Header::from_bytes(name) == Some(Header::Host));
    kani::cover!(Header::from_bytes(name).is_none());
}

/// completeness for the canonical and the all-lowercase spelling of EVERY standard header
#[kani::proof]
#[kani::unwind(34)]
fn c02_header_from_bytes_canonical_and_lowercase() {
    let i: u8 = kani::any();
    kani::assume((i as usize) < N_CLIENT_HEADERS);
    let h: Header = unsafe { std::mem::transmute(i) };
    let s = h.as_str().as_bytes();
    assert!(Header::from_bytes(s) == Some(h), "from_bytes: canonical spelling is recognised");
    let mut low = [0u8; 32];
    assert!(s.len() <= 32);
    let mut k = 0;
    while k < s.len() { low[k] = lower(s[k]); k += 1; }
    assert!(Header::from_bytes(&low[..s.len()]) == Some(h), "from_bytes: all-lowercase spelling is recognised");
}

/// the property's clause "names compare case-insensitively": EVERY case variant of a standard name is that header.
/// (known finding while only two spellings are matched: the harness is expected to fail, see known_findings.json)
#[kani::proof]
#[kani::unwind(34)]
fn c02_header_from_bytes_any_case() {
    let s = Header::ContentLength.as_str().as_bytes();     // "Content-Length": the header that decides whether a body is read
    let mask: u16 = kani::any();
    let mut v = [0u8; 14];
    let mut k = 0;
    while k < 14 {
        let c = s[k];
        v[k] = if (mask >> k) & 1 == 1 { if c >= b'a' && c <= b'z' { c - 32 } else { lower(c) } } else { c };
        k += 1;
    }
    assert!(Header::from_bytes(&v) == Some(Header::ContentLength), "from_bytes: every ASCII-case variant of `Content-Length` is recognised as Content-Length");
}

/// repeated headers are joined in order with ", " (standard headers; what Request::read does for every header line)
#[kani::proof]
#[kani::unwind(12)]
fn c02_headers_append_joins_in_order() {
    let a: [u8; 2] = kani::any();
    let b: [u8; 1] = kani::any();
    let mut h = Headers::new();
    h.append(Header::Accept, CowSlice::Ref(Slice::from_bytes(&a)));
    h.append(Header::Accept, CowSlice::Ref(Slice::from_bytes(&b)));
    let v = unsafe { h.get_raw(Header::Accept).unwrap().as_bytes() };
    assert!(v.len() == 5 && v[0] == a[0] && v[1] == a[1] && v[2] == b',' && v[3] == b' ' && v[4] == b[0], "append: repeated standard header values are joined in order with `, `");
    assert!(h.get_raw(Header::Host).is_none(), "append: other headers untouched");
}
