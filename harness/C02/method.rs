// C02 — request::method::Method::from_bytes: Some(m) iff the bytes are exactly the method token
use super::*;
fn eq(a: &[u8], b: &[u8]) -> bool { if a.len() != b.len() { return false } let mut i = 0; while i < a.len() { if a[i] != b[i] { return false } i += 1; } true }
#[kani::proof]
#[kani::unwind(10)]
fn c02_method_from_bytes_contract() {
    const L: usize = 8;
    let raw: [u8; L] = kani::any();
    let n: usize = kani::any();
    kani::assume(n <= L);
    let bytes = &raw[..n];
    let got = Method::from_bytes(bytes);
    const ALL: [Method; 7] = [Method::GET, Method::PUT, Method::POST, Method::PATCH, Method::DELETE, Method::HEAD, Method::OPTIONS];
    let mut want: Option<Method> = None;
    let mut i = 0;
    while i < 7 { if eq(bytes, ALL[i].as_str().as_bytes()) { want = Some(ALL[i]); } i += 1; }
    assert!(got == want, "Method::from_bytes: Some(m) iff the token is exactly one of the 7 method names (case-sensitive, whole token)");
    kani::cover!(got == Some(Method::OPTIONS));
    kani::cover!(got.is_none() && n == 3);
}
