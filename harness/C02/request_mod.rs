// C02 / C05 / C06 — request::Request: read_payload (body delivery independent of segmentation), clear (keep-alive frame contract)
use super::*;
//@include spec/block_on.rs
use vsupport::block_on;
use std::task::{Context as TaskCx, Poll};

/// scripted in-memory stream: delivers `data` in chunks of at most `chunk` bytes per read; then EOF
struct Script<'a> { data: &'a [u8], pos: usize, chunk: usize, reads: usize }
impl<'a> tokio::io::AsyncRead for Script<'a> {
    fn poll_read(mut self: Pin<&mut Self>, _cx: &mut TaskCx<'_>, buf: &mut tokio::io::ReadBuf<'_>) -> Poll<std::io::Result<()>> {
        let this = &mut *self;
        let mut n = std::cmp::min(buf.remaining(), this.data.len() - this.pos);
        if n > this.chunk { n = this.chunk }
        buf.put_slice(&this.data[this.pos..this.pos + n]);
        this.pos += n;
        this.reads += 1;
        Poll::Ready(Ok(()))
    }
}

/// read_payload(stream, arrived, size): `arrived` = the bytes that came in the same read as the head, after the head
/// (k of them: a prefix of the body when k < size, the whole body plus what follows it when k >= size);
/// the stream holds the rest.  Result == exactly the `size` body bytes, for ANY byte values (0x00 included) and any chunking.
///   shape index -> (size, k, chunk):  size in 1..=3, k in 0..=4, chunk in {1, 4}
fn read_payload_body(shape: usize) {
    let size = 1 + shape % 3;
    let k = (shape / 3) % 5;
    let chunk = if shape / 15 == 0 { 4 } else { 1 };
    let body: [u8; 3] = kani::any();
    let extra: [u8; 4] = kani::any();          // bytes of a following request in the same segment (when k > size)
    let mut arrived = [0u8; 4];
    let mut i = 0;
    while i < k { arrived[i] = if i < size { body[i] } else { extra[i - size] }; i += 1; }
    let rest_start = if k < size { k } else { size };
    // the stream holds the missing body bytes FOLLOWED by the first bytes of the next request: they must stay in the stream
    let next: [u8; 2] = kani::any();
    let mut wire = [0u8; 5];
    let missing = size - rest_start;
    let mut i = 0;
    while i < missing { wire[i] = body[rest_start + i]; i += 1; }
    wire[missing] = next[0]; wire[missing + 1] = next[1];
    let mut stream = Script { data: &wire[..missing + 2], pos: 0, chunk, reads: 0 };
    let got = block_on(Request::read_payload(&mut stream, &arrived[..k], size));
    let got: &[u8] = &got;
    assert!(got.len() == size, "read_payload: exactly Content-Length bytes");
    let mut i = 0;
    while i < size { assert!(got[i] == body[i], "read_payload: the payload is the body bytes, however they were split between the first read and later reads"); i += 1; }
    assert!(stream.pos == missing, "read_payload: consumes exactly the missing bytes from the stream (no byte of the next request is attributed to this one)");
    if k >= size { assert!(stream.reads == 0, "read_payload: does not wait for input that has already arrived"); }
    kani::cover!(body[0] == 0);
}
//@chunks 30 c06_read_payload_contract read_payload_body #[kani::proof] #[kani::unwind(8)]

// ---- Request::clear: after clear() every per-request observable is what it is after init() (frame contract for keep-alive reuse)
fn stub_ts() -> u64 { 0 }
fn sym_slice(len: usize) -> CowSlice {
    let b: [u8; 2] = kani::any();
    CowSlice::Own(Vec::from(&b[..len]).into_boxed_slice())
}
/// shape index bits: b0 standard header present, b1 second standard header, b2 custom header, b3 payload (owned), b4 context entry
fn clear_body(shape: usize) {
    let mut req = Request::init(std::net::IpAddr::V4(std::net::Ipv4Addr::new(127, 0, 0, 1)));
    // the state an accepted request leaves behind: buffer starts with a non-zero byte, then arbitrary bytes
    let head: [u8; 8] = kani::any();
    kani::assume(head[0] != 0);
    let mut i = 0; while i < 8 { req.__buf__[i] = head[i]; i += 1; }
    if shape & 1 != 0 { req.headers.append(RequestHeader::Host, sym_slice(2)); }
    if shape & 2 != 0 { req.headers.append(RequestHeader::Cookie, sym_slice(1)); req.headers.append(RequestHeader::Cookie, sym_slice(1)); }
    if shape & 4 != 0 { req.headers.insert_custom(Slice::from_bytes(b"X-A"), sym_slice(2)); }
    if shape & 8 != 0 { req.payload = Some(sym_slice(2)); }
    if shape & 16 != 0 { req.context.set(7u8); }
    req.clear();
    assert!(!req.headers.v_any_standard() && req.headers.v_standard_count() == 0, "clear: no standard header of the earlier request is observable (all 46 slots empty, iteration yields nothing)");
    assert!(req.headers.v_custom_count() == 0, "clear: no custom header of the earlier request is observable");
    assert!(req.payload.is_none(), "clear: no payload of the earlier request is observable");
    assert!(req.context.get::<u8>().is_none(), "clear: no context entry of the earlier request is observable");
    assert!(req.__buf__[0] == 0, "clear: buffer marked unused");
    // and the cleared request accepts new headers as a fresh one does (no stale entry resurfaces)
    req.headers.append(RequestHeader::Host, sym_slice(1));
    assert!(req.headers.v_standard_count() == 1 && req.headers.get_raw(RequestHeader::Host).map(|v| v.len()) == Some(1), "clear: a header set after clear() is the only header (no stale entry resurfaces)");
    kani::cover!(true);
}
//@chunks 32 c05_clear_contract clear_body #[kani::proof] #[kani::unwind(50)] #[kani::stub(crate::util::unix_timestamp, stub_ts)]

/// the buffer-filling request: the earlier request occupied the WHOLE 1 KiB buffer (no NUL byte anywhere); clear() must still reset everything
#[kani::proof]
#[kani::unwind(1030)]
#[kani::stub(crate::util::unix_timestamp, stub_ts)]
fn c05_clear_full_buffer_contract() {
    let mut req = Request::init(std::net::IpAddr::V4(std::net::Ipv4Addr::new(127, 0, 0, 1)));
    *req.__buf__ = [b'A'; BUF_SIZE];
    req.headers.append(RequestHeader::Host, sym_slice(2));
    req.headers.insert_custom(Slice::from_bytes(b"X-A"), sym_slice(2));
    req.payload = Some(sym_slice(2));
    req.context.set(7u8);
    req.clear();
    assert!(!req.headers.v_any_standard() && req.headers.v_standard_count() == 0, "clear (full buffer): no standard header of the earlier request is observable");
    assert!(req.headers.v_custom_count() == 0, "clear (full buffer): no custom header of the earlier request is observable");
    assert!(req.payload.is_none(), "clear (full buffer): no payload of the earlier request is observable");
    assert!(req.context.get::<u8>().is_none(), "clear (full buffer): no context entry of the earlier request is observable");
    assert!(req.__buf__[0] == 0, "clear (full buffer): buffer marked unused");
}
