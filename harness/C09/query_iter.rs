// C09 (last clause) — request::query::QueryParams::iter: the pairs it yields are the RFC 3986 percent-decodings of the `&`/`=`-separated parts
// of the query string, in order.  Template `K=V..&K=V..` with concrete part lengths, symbolic ASCII bytes (any byte except `&` and `=`; `%XY`
// escapes included through the assumed contract of the percent-encoding crate).
use super::*;
//@include spec/utf8.rs
//@include spec/percent.rs
fn eqb(a: &[u8], b: &[u8]) -> bool { if a.len() != b.len() { return false } let mut i = 0; while i < a.len() { if a[i] != b[i] { return false } i += 1; } true }
/// ASSUMED CONTRACT of String::from_utf8_lossy restricted to the inputs of these harnesses: the bytes are ASCII by construction (and percent-decoding
/// of ASCII hex escapes may produce any byte: those inputs are excluded by the assumption below), and ASCII is returned unchanged
fn stub_lossy(v: &[u8]) -> Cow<'_, str> {
    let mut i = 0; let mut ascii = true;
    while i < v.len() { if v[i] >= 0x80 { ascii = false } i += 1; }
    kani::assume(ascii);
    Cow::Borrowed(unsafe { std::str::from_utf8_unchecked(v) })
}

fn query_iter_body(k: usize) {
    const L: [(usize, usize); 4] = [(1, 1), (3, 0), (0, 3), (2, 2)];
    let (v0, v1) = L[k];
    let raw: &'static mut [u8; 11] = Box::leak(Box::new(kani::any()));
    let n = 2 + v0 + 1 + 2 + v1;
    raw[1] = b'='; raw[2 + v0] = b'&'; raw[2 + v0 + 2] = b'=';
    let mut i = 0;
    while i < n { if i != 1 && i != 2 + v0 && i != 2 + v0 + 2 { kani::assume(raw[i] != b'&' && raw[i] != b'=' && raw[i] < 0x80); } i += 1; }
    let text: &'static [u8] = &raw[..n];
    let (key0, val0, key1, val1) = (&text[0..1], &text[2..2 + v0], &text[3 + v0..4 + v0], &text[5 + v0..n]);
    let q = QueryParams::new(text);
    let mut it = q.iter();
    let want = |part: &[u8]| -> [u8; 4] { let d = spec_percent_decode(part); let mut o = [0u8; 4]; let mut i = 0; while i < d.len() && i < 3 { o[i] = d[i]; i += 1; } o[3] = d.len() as u8; o };
    let first = it.next();
    let (wk, wv) = (want(key0), want(val0));
    assert!(matches!(&first, Some((k, v)) if k.len() == wk[3] as usize && v.len() == wv[3] as usize && eqb(k.as_bytes(), &wk[..wk[3] as usize]) && eqb(v.as_bytes(), &wv[..wv[3] as usize])),
        "query iterator: the first pair is the percent-decoding of the parts around the first `=`");
    let second = it.next();
    let (wk, wv) = (want(key1), want(val1));
    assert!(matches!(&second, Some((k, v)) if k.len() == wk[3] as usize && v.len() == wv[3] as usize && eqb(k.as_bytes(), &wk[..wk[3] as usize]) && eqb(v.as_bytes(), &wv[..wv[3] as usize])),
        "query iterator: the second pair, in order");
    assert!(it.next().is_none(), "query iterator: nothing after the last pair");
    std::mem::forget(first); std::mem::forget(second);
    kani::cover!(true);
}
//@chunks 4 c09_query_iter query_iter_body #[kani::proof] #[kani::unwind(14)] #[kani::stub(ohkami_lib::percent_decode, spec_percent_decode)] #[kani::stub(std::string::String::from_utf8_lossy, stub_lossy)]

/// the same clause on ENUMERATED CONCRETE query strings (the symbolic template above does not finish in 15 min: every byte may be a delimiter for CBMC)
fn query_iter_concrete_body(k: usize) {
    const Q: [(&[u8], &[(&str, &str)]); 7] = [
        (b"a=1&b=2", &[("a", "1"), ("b", "2")]),
        (b"q=what%3F&lang%2B=c%2B&n=1", &[("q", "what?"), ("lang+", "c+"), ("n", "1")]),
        (b"k=&x=%20y", &[("k", ""), ("x", " y")]),
        (b"a=1&=v&b&c=3&", &[("a", "1"), ("c", "3")]),            // empty key, missing `=`, trailing `&` are skipped
        (b"a=%zz&b=100%25", &[("a", "%zz"), ("b", "100%")]),      // an invalid escape is kept verbatim (RFC 3986 decoding of the part)
        (b"", &[]),
        (b"z=a%3Db%26c", &[("z", "a=b&c")]),
    ];
    let (text, want) = Q[k];
    let q = QueryParams::new(text);
    let mut it = q.iter();
    let mut i = 0;
    while i < want.len() {
        let got = it.next();
        assert!(matches!(&got, Some((k, v)) if eqb(k.as_bytes(), want[i].0.as_bytes()) && eqb(v.as_bytes(), want[i].1.as_bytes())),
            "query iterator: the i-th pair is the percent-decoding of the parts around `=` of the i-th well-formed `&`-separated part");
        std::mem::forget(got);
        i += 1;
    }
    assert!(it.next().is_none(), "query iterator: nothing after the last pair");
}
//@chunks 7 c09_query_iter_concrete query_iter_concrete_body #[kani::proof] #[kani::unwind(30)] #[kani::stub(std::string::String::from_utf8_lossy, stub_lossy)]
