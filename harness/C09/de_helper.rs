// C09 — constructors for the harness (fields / types are private to this module)
use super::*;
impl<'de> URLEncodedDeserializer<'de> {
    pub(crate) fn v_at_value(input: &'de [u8]) -> Self { Self { input, side: ParsingSide::Value } }
}
pub(crate) fn c09_map_access<'amp, 'de>(de: &'amp mut URLEncodedDeserializer<'de>) -> impl serde::de::MapAccess<'de, Error = super::super::Error> + 'amp { AmpersandSeparated::new(de) }
