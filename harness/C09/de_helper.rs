// C09 — constructor of a deserializer positioned in the value place (fields are private to this module)
use super::*;
impl<'de> URLEncodedDeserializer<'de> {
    pub(crate) fn v_at_value(input: &'de [u8]) -> Self { Self { input, side: ParsingSide::Value } }
}
