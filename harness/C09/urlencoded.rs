// C09 — serde_urlencoded: value -> real serialize_* method -> bytes -> matching real deserialize_* method -> the same value,
// per field type at METHOD level (whole to_string/from_bytes through serde-derived impls does not get through CBMC, DESIGN §2),
// and decoding of `key=value` text against RFC 3986 percent-decoding.
use super::*;
use serde::{Serialize, Deserialize};
fn stub_format(_: std::fmt::Arguments<'_>) -> String { String::new() }
//@include spec/utf8.rs
//@include spec/percent.rs
//@include spec/from_utf8_stub.rs

/// ASSUMED CONTRACT of percent_encoding::percent_encode(.., NON_ALPHANUMERIC): every byte that is not an ASCII letter or digit becomes %XY (upper-case hex)
fn spec_percent_encode(input: &str) -> std::borrow::Cow<'_, str> {
    const HEX: &[u8; 16] = b"0123456789ABCDEF";
    let b = input.as_bytes();
    assert!(b.len() <= 4, "harness bound of the percent-encoding stub");
    let mut out = [0u8; 12];
    let (mut n, mut i, mut any) = (0usize, 0usize, false);
    while i < b.len() {
        let c = b[i];
        if (c >= b'0' && c <= b'9') || (c >= b'a' && c <= b'z') || (c >= b'A' && c <= b'Z') { out[n] = c; n += 1; }
        else { out[n] = b'%'; out[n + 1] = HEX[(c >> 4) as usize]; out[n + 2] = HEX[(c & 15) as usize]; n += 3; any = true; }
        i += 1;
    }
    if !any { return std::borrow::Cow::Borrowed(input) }
    let mut v = Vec::from(out);
    unsafe { v.set_len(n) };
    std::borrow::Cow::Owned(unsafe { String::from_utf8_unchecked(v) })
}

/// serialize one value in the value place of a pair `k=<value>`, return the bytes of the value place
fn ser_value<T: Serialize>(v: &T) -> &'static [u8] {
    let mut s = ser::URLEncodedSerializer::new();
    assert!(v.serialize(&mut s).is_ok(), "serializer accepts the value");
    let out: &'static str = Box::leak(s.output().into_boxed_str());
    out.as_bytes()
}
fn de_value<T: Deserialize<'static>>(bytes: &'static [u8]) -> Option<T> {
    let mut d = de::URLEncodedDeserializer::v_at_value(bytes);
    match T::deserialize(&mut d) { Ok(v) if d.remaining().is_empty() => Some(v), _ => None }
}

macro_rules! roundtrip {
    ($name:ident, $t:ty, $unwind:expr) => {
        #[kani::proof]
        #[kani::unwind($unwind)]
        #[kani::stub(alloc::fmt::format, stub_format)]
        #[kani::stub(crate::percent_encoding::percent_decode, spec_percent_decode)]
        #[kani::stub(crate::percent_encoding::percent_decode_utf8, spec_percent_decode_utf8)]
        #[kani::stub(crate::percent_encoding::percent_encode, spec_percent_encode)]
        #[kani::stub(std::str::from_utf8, stub_from_utf8)]
        fn $name() {
            let v: $t = kani::any();
            let bytes = ser_value(&v);
            let back: Option<$t> = de_value(bytes);
            assert!(back == Some(v), "urlencoded: the serialized value decodes back to an equal value");
        }
    };
}
roundtrip!(c09_roundtrip_bool, bool, 8);
roundtrip!(c09_roundtrip_u8, u8, 8);
roundtrip!(c09_roundtrip_i16, i16, 10);
roundtrip!(c09_roundtrip_option_u8, Option<u8>, 8);
roundtrip!(c09_roundtrip_char, char, 14);
roundtrip!(c09_roundtrip_pair_u8, (u8, u8), 10);

/// strings of 1..=2 arbitrary bytes forming valid UTF-8 (reserved characters and non-ASCII included)
fn roundtrip_string_body(len: usize) {
    let raw: [u8; 2] = kani::any();
    kani::assume(spec_utf8(&raw[..len]));
    let s: String = unsafe { String::from_utf8_unchecked(Vec::from(&raw[..len])) };
    let bytes = ser_value(&s);
    // on the wire: only unreserved ASCII and percent escapes
    let mut i = 0;
    while i < bytes.len() { let c = bytes[i]; assert!(c == b'%' || (c >= b'0' && c <= b'9') || (c >= b'a' && c <= b'z') || (c >= b'A' && c <= b'Z'), "urlencoded: a string is emitted percent-encoded (no raw reserved or non-ASCII byte)"); i += 1; }
    let back: Option<String> = de_value(bytes);
    assert!(matches!(&back, Some(b) if b.len() == len && b.as_bytes()[0] == raw[0] && (len < 2 || b.as_bytes()[1] == raw[1])), "urlencoded: the serialized string decodes back to an equal string");
}
//@chunks 3 c09_roundtrip_string roundtrip_string_body #[kani::proof] #[kani::unwind(14)] #[kani::stub(alloc::fmt::format, stub_format)] #[kani::stub(crate::percent_encoding::percent_decode, spec_percent_decode)] #[kani::stub(crate::percent_encoding::percent_decode_utf8, spec_percent_decode_utf8)] #[kani::stub(crate::percent_encoding::percent_encode, spec_percent_encode)] #[kani::stub(std::str::from_utf8, stub_from_utf8)]
