// C09 — serde_urlencoded: value -> real serialize_* method -> bytes -> matching real deserialize_* method -> the same value,
// per field type at METHOD level (whole to_string/from_bytes through serde-derived impls does not get through CBMC, DESIGN §2),
// and decoding of `key=value` text against RFC 3986 percent-decoding.
use super::*;
use serde::{Serialize, Deserialize};
fn stub_format(_: std::fmt::Arguments<'_>) -> String { String::new() }
//@include spec/utf8.rs
//@include spec/percent.rs
//@include spec/from_utf8_stub.rs

/// ASSUMED CONTRACT of percent_encoding::percent_encode(.., NON_ALPHANUMERIC): every byte that is not an ASCII letter or digit becomes %XY (upper-case hex)
fn spec_percent_encode(input: &str) -> std::borrow::Cow<'_, str> {
    const HEX: &[u8; 16] = b"0123456789ABCDEF";
    let b = input.as_bytes();
    assert!(b.len() <= 8, "harness bound of the percent-encoding stub");
    let mut out = [0u8; 24];
    let (mut n, mut i, mut any) = (0usize, 0usize, false);
    while i < b.len() {
        let c = b[i];
        if (c >= b'0' && c <= b'9') || (c >= b'a' && c <= b'z') || (c >= b'A' && c <= b'Z') { out[n] = c; n += 1; }
        else { out[n] = b'%'; out[n + 1] = HEX[(c >> 4) as usize]; out[n + 2] = HEX[(c & 15) as usize]; n += 3; any = true; }
        i += 1;
    }
    if !any { return std::borrow::Cow::Borrowed(input) }
    let mut v = Vec::from(out);
    unsafe { v.set_len(n) };
    std::borrow::Cow::Owned(unsafe { String::from_utf8_unchecked(v) })
}

/// serialize one value in the value place of a pair `k=<value>`, return the bytes of the value place
fn ser_value<T: Serialize>(v: &T) -> &'static [u8] {
    let mut s = ser::URLEncodedSerializer::v_value_place();      // output so far: `k=`
    assert!(v.serialize(&mut s).is_ok(), "serializer accepts the value");
    let out: &'static str = Box::leak(s.output().into_boxed_str());
    &out.as_bytes()[2..]
}
fn de_value<T: Deserialize<'static>>(bytes: &'static [u8]) -> Option<T> {
    let mut d = de::URLEncodedDeserializer::v_at_value(bytes);
    match T::deserialize(&mut d) { Ok(v) if d.remaining().is_empty() => Some(v), _ => None }
}


macro_rules! roundtrip {
    ($name:ident, $t:ty, $unwind:expr) => {
        #[kani::proof]
        #[kani::unwind($unwind)]
        #[kani::stub(alloc::fmt::format, stub_format)]
        #[kani::stub(crate::percent_encoding::percent_decode, spec_percent_decode)]
        #[kani::stub(crate::percent_encoding::percent_decode_utf8, spec_percent_decode_utf8)]
        #[kani::stub(crate::percent_encoding::percent_encode, spec_percent_encode)]
        #[kani::stub(std::str::from_utf8, stub_from_utf8)]
        fn $name() {
            let v: $t = kani::any();
            let bytes = ser_value(&v);
            let back: Option<$t> = de_value(bytes);
            assert!(back == Some(v), "urlencoded: the serialized value decodes back to an equal value");
        }
    };
}
#[derive(Serialize, Deserialize, PartialEq, Clone, Copy, kani::Arbitrary)]
enum Colour { Red, Green, DarkBlue }
#[derive(Serialize, Deserialize, PartialEq, Clone, Copy, kani::Arbitrary)]
struct Flag(bool);
roundtrip!(c09_roundtrip_bool, bool, 8);
roundtrip!(c09_roundtrip_option_bool, Option<bool>, 8);
roundtrip!(c09_roundtrip_unit_enum, Colour, 12);
roundtrip!(c09_roundtrip_option_unit_enum, Option<Colour>, 12);
roundtrip!(c09_roundtrip_newtype, Flag, 8);
roundtrip!(c09_roundtrip_char, char, 14);
/// every ASCII char (all reserved characters: & = , % + space, controls), enumerated CONCRETELY in 4 chunks of 32 (a symbolic char makes the
/// serializer's output symbolic-length: > 20 GB, measured)
fn char_ascii_body(k: usize) {
    let mut c = (k * 32) as u8;
    while c < (k * 32 + 32) as u8 {
        let v = c as char;
        let back: Option<char> = de_value(ser_value(&v));
        assert!(back == Some(v), "urlencoded: the serialized char decodes back to an equal char");
        c += 1;
    }
}
//@chunks 4 c09_roundtrip_char_ascii char_ascii_body #[kani::proof] #[kani::unwind(34)] #[kani::stub(alloc::fmt::format, stub_format)] #[kani::stub(crate::percent_encoding::percent_decode, spec_percent_decode)] #[kani::stub(crate::percent_encoding::percent_decode_utf8, spec_percent_decode_utf8)] #[kani::stub(crate::percent_encoding::percent_encode, spec_percent_encode)] #[kani::stub(std::str::from_utf8, stub_from_utf8)]
/// representative non-ASCII chars of every UTF-8 length (concrete)
#[kani::proof]
#[kani::unwind(14)]
#[kani::stub(alloc::fmt::format, stub_format)]
#[kani::stub(crate::percent_encoding::percent_decode, spec_percent_decode)]
#[kani::stub(crate::percent_encoding::percent_decode_utf8, spec_percent_decode_utf8)]
#[kani::stub(crate::percent_encoding::percent_encode, spec_percent_encode)]
#[kani::stub(std::str::from_utf8, stub_from_utf8)]
fn c09_roundtrip_char_samples() {
    let cs = ['\u{e9}', '\u{20ac}', '\u{1f600}', '\u{7ff}', '\u{800}', '\u{ffff}', '\u{10000}', '\u{10ffff}'];
    let mut i = 0;
    while i < cs.len() { let v = cs[i]; let back: Option<char> = de_value(ser_value(&v)); assert!(back == Some(v), "urlencoded: the serialized char decodes back to an equal char"); i += 1; }
}
roundtrip!(c09_roundtrip_pair_bool, (bool, bool), 26);
roundtrip!(c09_roundtrip_triple_bool, (bool, bool, bool), 34);

/// integers: formatting and parsing are core's Display / FromStr (executed, not specified); the values are the boundaries of every width
macro_rules! int_roundtrip {
    ($name:ident, $t:ty, [$($v:expr),*]) => {
        #[kani::proof]
        #[kani::unwind(24)]
        #[kani::stub(alloc::fmt::format, stub_format)]
        #[kani::stub(std::str::from_utf8, stub_from_utf8)]
        fn $name() {
            $( { let v: $t = $v; let back: Option<$t> = de_value(ser_value(&v)); assert!(back == Some(v), "urlencoded: the serialized integer decodes back to an equal value"); } )*
        }
    };
}
int_roundtrip!(c09_roundtrip_int_u8_i8, i16, [0, 9, 10, 99, 100, 127, 128, 255, -1, -128]);
int_roundtrip!(c09_roundtrip_int_u64_bounds, u64, [0, u32::MAX as u64, i64::MAX as u64, i64::MAX as u64 + 1, u64::MAX]);
int_roundtrip!(c09_roundtrip_int_i64_bounds, i64, [i64::MIN, i64::MIN + 1, -1, i32::MIN as i64, i64::MAX]);
int_roundtrip!(c09_roundtrip_int_u32_i32_bounds, i64, [u32::MAX as i64, i32::MAX as i64, i32::MIN as i64, u16::MAX as i64, i16::MIN as i64]);
int_roundtrip!(c09_roundtrip_int_u16_native, u16, [0, 255, 256, 9999, 10000, 65535]);
int_roundtrip!(c09_roundtrip_int_u32_native, u32, [0, 65536, 999999999, 1000000000, 4294967295]);
int_roundtrip!(c09_roundtrip_int_i8_native, i8, [-128, -1, 0, 127]);
int_roundtrip!(c09_roundtrip_int_i32_native, i32, [i32::MIN, -1, 0, i32::MAX]);
int_roundtrip!(c09_roundtrip_int_u8_native, u8, [0, 9, 10, 99, 100, 255]);

/// strings of 0..=2 arbitrary bytes forming valid UTF-8 (reserved characters and non-ASCII included)
fn roundtrip_string_body(len: usize) {
    let raw: [u8; 2] = kani::any();
    kani::assume(spec_utf8(&raw[..len]));
    let s: String = unsafe { String::from_utf8_unchecked(Vec::from(&raw[..len])) };
    let bytes = ser_value(&s);
    // on the wire: only unreserved ASCII and percent escapes
    let mut i = 0;
    while i < bytes.len() { let c = bytes[i]; assert!(c == b'%' || (c >= b'0' && c <= b'9') || (c >= b'a' && c <= b'z') || (c >= b'A' && c <= b'Z'), "urlencoded: a string is emitted percent-encoded (no raw reserved or non-ASCII byte)"); i += 1; }
    let back: Option<String> = de_value(bytes);
    assert!(matches!(&back, Some(b) if b.len() == len && (len < 1 || b.as_bytes()[0] == raw[0]) && (len < 2 || b.as_bytes()[1] == raw[1])), "urlencoded: the serialized string decodes back to an equal string");
}
//@chunks 3 c09_roundtrip_string roundtrip_string_body #[kani::proof] #[kani::unwind(14)] #[kani::stub(alloc::fmt::format, stub_format)] #[kani::stub(crate::percent_encoding::percent_decode, spec_percent_decode)] #[kani::stub(crate::percent_encoding::percent_decode_utf8, spec_percent_decode_utf8)] #[kani::stub(crate::percent_encoding::percent_encode, spec_percent_encode)] #[kani::stub(std::str::from_utf8, stub_from_utf8)]

/// pairs of strings (sequence elements of concrete lengths, symbolic ASCII contents: `,` `&` `=` `%` included)
fn roundtrip_string_pair_body(k: usize) {
    const L: [(usize, usize); 4] = [(1, 1), (1, 0), (2, 1), (0, 1)];
    let (l0, l1) = L[k];
    let r0: [u8; 2] = kani::any(); let r1: [u8; 2] = kani::any();
    kani::assume(r0[0] < 128 && r0[1] < 128 && r1[0] < 128 && r1[1] < 128);
    let a: String = unsafe { String::from_utf8_unchecked(Vec::from(&r0[..l0])) };
    let b: String = unsafe { String::from_utf8_unchecked(Vec::from(&r1[..l1])) };
    let v = (a, b);
    let bytes = ser_value(&v);
    let back: Option<(String, String)> = de_value(bytes);
    assert!(matches!(&back, Some((x, y)) if x.len() == l0 && y.len() == l1 && (l0 < 1 || x.as_bytes()[0] == r0[0]) && (l0 < 2 || x.as_bytes()[1] == r0[1]) && (l1 < 1 || y.as_bytes()[0] == r1[0])),
        "urlencoded: a sequence of strings decodes back to the same sequence (element boundaries kept)");
}
//@chunks 4 c09_roundtrip_string_pair roundtrip_string_pair_body #[kani::proof] #[kani::unwind(14)] #[kani::stub(alloc::fmt::format, stub_format)] #[kani::stub(crate::percent_encoding::percent_decode, spec_percent_decode)] #[kani::stub(crate::percent_encoding::percent_decode_utf8, spec_percent_decode_utf8)] #[kani::stub(crate::percent_encoding::percent_encode, spec_percent_encode)] #[kani::stub(std::str::from_utf8, stub_from_utf8)]

/// concrete sequences of strings: separators and escapes inside elements survive (cheap concrete executions beside the symbolic pair harnesses)
macro_rules! seq_probe {
    ($name:ident, [$(($a:expr, $b:expr)),*]) => {
        #[kani::proof]
        #[kani::unwind(40)]
        #[kani::stub(alloc::fmt::format, stub_format)]
        #[kani::stub(crate::percent_encoding::percent_decode, spec_percent_decode)]
        #[kani::stub(crate::percent_encoding::percent_decode_utf8, spec_percent_decode_utf8)]
        #[kani::stub(crate::percent_encoding::percent_encode, spec_percent_encode)]
        #[kani::stub(std::str::from_utf8, stub_from_utf8)]
        fn $name() {
            $( {
                let v: (String, String) = (String::from($a), String::from($b));
                let back: Option<(String, String)> = de_value(ser_value(&v));
                assert!(matches!(&back, Some((x, y)) if eqb(x.as_bytes(), $a.as_bytes()) && eqb(y.as_bytes(), $b.as_bytes())), "urlencoded: a sequence of strings decodes back to the same sequence (element boundaries kept)");
            } )*
        }
    };
}
/// concrete sequences of booleans of length 2 and 3 (the symbolic (bool, bool) / (bool, bool, bool) harnesses above exceed 14 GB under CBMC and are not registered)
#[kani::proof]
#[kani::unwind(40)]
#[kani::stub(alloc::fmt::format, stub_format)]
#[kani::stub(crate::percent_encoding::percent_decode, spec_percent_decode)]
#[kani::stub(crate::percent_encoding::percent_decode_utf8, spec_percent_decode_utf8)]
#[kani::stub(crate::percent_encoding::percent_encode, spec_percent_encode)]
#[kani::stub(std::str::from_utf8, stub_from_utf8)]
fn c09_seq_bools_concrete() {
    let a = (true, false);
    let back: Option<(bool, bool)> = de_value(ser_value(&a));
    assert!(back == Some(a), "urlencoded: the serialized value decodes back to an equal value");
    let b = (false, false, true);
    let back: Option<(bool, bool, bool)> = de_value(ser_value(&b));
    assert!(back == Some(b), "urlencoded: the serialized value decodes back to an equal value");
}
seq_probe!(c09_seq_strings_concrete, [("a", "b"), ("a,", "&"), ("=", "%2")]);
// KNOWN FINDING KF-C09-empty-first-seq-element: the serializer decides "first element" by `output.ends_with('=')`, so an EMPTY first element is lost
seq_probe!(c09_seq_empty_first_element, [("", "x")]);

/// decoding of `key=value&key=value` text: the MapAccess steps of the real deserializer yield, pair by pair, the RFC 3986
/// percent-decoding of the `&` / `=`-separated parts (keys of 1 byte, values of 0..=3 bytes, symbolic; `%XY` escapes included)
fn eqb(a: &[u8], b: &[u8]) -> bool { if a.len() != b.len() { return false } let mut i = 0; while i < a.len() { if a[i] != b[i] { return false } i += 1; } true }
fn decode_text_body(k: usize) {
    use serde::de::MapAccess;
    const L: [(usize, usize); 4] = [(1, 1), (3, 0), (0, 3), (2, 2)];
    let (v0, v1) = L[k];
    let raw: &'static mut [u8; 11] = Box::leak(Box::new(kani::any()));
    // layout: K '=' V0.. '&' K '=' V1..
    let n = 2 + v0 + 1 + 2 + v1;
    raw[1] = b'='; raw[2 + v0] = b'&'; raw[2 + v0 + 2] = b'=';
    let mut i = 0;
    while i < n { if i != 1 && i != 2 + v0 && i != 2 + v0 + 2 { kani::assume(raw[i] != b'&' && raw[i] != b'='); } i += 1; }
    let text: &'static [u8] = &raw[..n];
    let (key0, val0, key1, val1) = (&text[0..1], &text[2..2 + v0], &text[3 + v0..4 + v0], &text[5 + v0..n]);
    let mut de = de::URLEncodedDeserializer::new(text);
    let mut acc = de::__verif_c09::c09_map_access(&mut de);
    let k0 = acc.next_key_seed(std::marker::PhantomData::<String>);
    let want_k0 = spec_percent_decode_utf8(key0);
    assert!(match (&k0, &want_k0) { (Ok(Some(g)), Ok(w)) => eqb(g.as_bytes(), w.as_bytes()), (Err(_), Err(_)) => true, _ => false }, "urlencoded text: first key is the percent-decoding of the part before `=`");
    if k0.is_err() { return }
    let g0 = acc.next_value_seed(std::marker::PhantomData::<String>);
    let want_v0 = spec_percent_decode_utf8(val0);
    assert!(match (&g0, &want_v0) { (Ok(g), Ok(w)) => eqb(g.as_bytes(), w.as_bytes()), (Err(_), Err(_)) => true, _ => false }, "urlencoded text: first value is the percent-decoding of the part between `=` and `&`");
    if g0.is_err() { return }
    let k1 = acc.next_key_seed(std::marker::PhantomData::<String>);
    let want_k1 = spec_percent_decode_utf8(key1);
    assert!(match (&k1, &want_k1) { (Ok(Some(g)), Ok(w)) => eqb(g.as_bytes(), w.as_bytes()), (Err(_), Err(_)) => true, _ => false }, "urlencoded text: second key");
    if k1.is_err() { return }
    let g1 = acc.next_value_seed(std::marker::PhantomData::<String>);
    let want_v1 = spec_percent_decode_utf8(val1);
    assert!(match (&g1, &want_v1) { (Ok(g), Ok(w)) => eqb(g.as_bytes(), w.as_bytes()), (Err(_), Err(_)) => true, _ => false }, "urlencoded text: second value is the percent-decoding of the last part");
    if g1.is_err() { return }
    let end = acc.next_key_seed(std::marker::PhantomData::<String>);
    assert!(matches!(end, Ok(None)), "urlencoded text: nothing after the last pair");
    kani::cover!(true);
}
//@chunks 4 c09_decode_text decode_text_body #[kani::proof] #[kani::unwind(14)] #[kani::stub(alloc::fmt::format, stub_format)] #[kani::stub(crate::percent_encoding::percent_decode, spec_percent_decode)] #[kani::stub(crate::percent_encoding::percent_decode_utf8, spec_percent_decode_utf8)] #[kani::stub(std::str::from_utf8, stub_from_utf8)]
