// C09 — a serializer positioned in the value place of a pair `k=<value>` (fields are private to this module)
use super::*;
impl URLEncodedSerializer {
    pub(crate) fn v_value_place() -> Self { Self { output: String::from("k="), init: true } }
}
