// C01 — router::final: per-step matching contract of Pattern::take_through and Node::search_target on concrete trees
use super::*;
use std::pin::Pin;
use crate::fang::SendOnNativeFuture;

const M: usize = 8;   // bound on the request-path length in the tree harnesses

struct Dummy;
impl FangProcCaller for Dummy {
    fn call_bite<'b>(&'b self, _req: &'b mut Request) -> Pin<Box<dyn SendOnNativeFuture<Response> + 'b>> { unreachable!() }
}
fn node(pattern: Pattern, children: &'static [Node]) -> Node {
    Node { pattern, proc: BoxedFPC::from_proc(Dummy), catch: BoxedFPC::from_proc(Dummy), children }
}
fn leak(v: Vec<Node>) -> &'static [Node] { v.leak() }

/// symbolic byte string of symbolic length n <= L (a prefix view of a symbolic array)
fn any_bytes<const L: usize>(raw: &'static [u8; L]) -> &'static [u8] {
    let n: usize = kani::any();
    kani::assume(n <= L);
    unsafe { std::slice::from_raw_parts(raw.as_ptr(), n) }
}
fn eq_at(a: &[u8], off: usize, b: &[u8]) -> bool {
    if a.len() < off + b.len() { return false }
    let mut i = 0;
    while i < b.len() { if a[off + i] != b[i] { return false } i += 1; }
    true
}
fn params_next(p: &Path) -> usize { p.v_inner().params_next() }

// ---- Pattern::take_through, Static: `Some(rest)` IFF bytes = s ++ rest with rest empty or starting with '/'
// ("a static segment matches only the identical segment"); rest is the sub-slice after s; no param is pushed.
//@chunks 5 c01_take_through_static_contract take_through_static_body #[kani::proof] #[kani::unwind(10)]
fn take_through_static_body(slen: usize) {
    // static pattern of concrete length slen (0 = root, else '/' + segment bytes without '/'), symbolic content
    let sraw: &'static [u8; 4] = Box::leak(Box::new(kani::any()));
    let s: &'static [u8] = &sraw[..slen];
    if slen > 0 { kani::assume(s[0] == b'/'); let mut i = 1; while i < slen { kani::assume(s[i] != b'/'); i += 1; } }
    let raw: &'static [u8; M] = Box::leak(Box::new(kani::any()));
    let bytes = any_bytes(raw);
    let mut path = Path::uninit();
    let _ = path.init_with_request_bytes(b"/");
    let got = Pattern::Static(s).take_through(bytes, &mut path);
    let expect = eq_at(bytes, 0, s) && (bytes.len() == slen || bytes[slen] == b'/');
    assert!(got.is_some() == expect, "take_through(Static): matches iff bytes = s ++ rest with rest empty or starting with '/' (identical segment, not a byte prefix)");
    if let Some(rest) = got {
        assert!(rest.len() == bytes.len() - slen && (rest.is_empty() || rest.as_ptr() == unsafe { bytes.as_ptr().add(slen) }), "take_through(Static): rest is bytes[s.len()..]");
    }
    assert!(params_next(&path) == 0, "take_through(Static): pushes no param");
    kani::cover!(got.is_some() && !got.unwrap().is_empty());
    kani::cover!(got.is_none() && eq_at(bytes, 0, s) || slen == 0);
}

// ---- Pattern::take_through, Param: `Some(rest)` IFF bytes = '/' seg rest, seg non-empty and '/'-free, rest empty or starting with '/';
// exactly seg is pushed as the next param.
#[kani::proof]
#[kani::unwind(10)]
fn c01_take_through_param_contract() {
    let raw: &'static [u8; M] = Box::leak(Box::new(kani::any()));
    let bytes = any_bytes(raw);
    let mut path = Path::uninit();
    let _ = path.init_with_request_bytes(b"/");
    let got = Pattern::Param.take_through(bytes, &mut path);
    // reference: end of the first segment
    let mut e = 1;
    while e < bytes.len() && bytes[e] != b'/' { e += 1; }
    let expect = bytes.len() >= 2 && bytes[0] == b'/' && e > 1;
    assert!(got.is_some() == expect, "take_through(Param): matches iff bytes starts with '/' followed by a non-empty segment");
    match got {
        Some(rest) => {
            assert!(rest.len() == bytes.len() - e && (rest.is_empty() || (rest[0] == b'/' && rest.as_ptr() == unsafe { bytes.as_ptr().add(e) })), "take_through(Param): rest is what follows the segment");
            assert!(params_next(&path) == 1, "take_through(Param): exactly one param pushed");
            let p = unsafe { path.assume_one_param() };
            assert!(p.len() == e - 1 && p.as_ptr() == unsafe { bytes.as_ptr().add(1) }, "take_through(Param): the pushed param is exactly the segment");
        }
        None => assert!(params_next(&path) == 0, "take_through(Param): no param pushed on a miss"),
    }
    kani::cover!(got.is_some() && !got.unwrap().is_empty());
    kani::cover!(got.is_none() && bytes.len() >= 2);
}

// ---- Node::search_target on concrete final trees, symbolic request path (<= M bytes) ----------------------------------------
/// request path: '/' first, symbolic length and content; returns (path, segments as (start, end) pairs, nseg, has_empty_segment)
struct Req { path: Path, raw: &'static [u8; M], n: usize, nseg: usize, st: [usize; M], en: [usize; M], empty_seg: bool }
fn any_request() -> Req {
    let raw: &'static [u8; M] = Box::leak(Box::new(kani::any()));
    let n: usize = kani::any();
    kani::assume(n >= 1 && n <= M && raw[0] == b'/');
    let mut path = Path::uninit();
    assert!(path.init_with_request_bytes(unsafe { std::slice::from_raw_parts(raw.as_ptr(), n) }).is_ok());
    // reference segmentation of the path with ONE trailing slash ignored
    let m = if raw[n - 1] == b'/' { n - 1 } else { n };
    let (mut nseg, mut empty_seg, mut i) = (0usize, false, 0usize);
    let (mut st, mut en) = ([0usize; M], [0usize; M]);
    while i < m {
        let s = i + 1; let mut j = s;
        while j < m && raw[j] != b'/' { j += 1 }
        if j == s { empty_seg = true }
        st[nseg] = s; en[nseg] = j; nseg += 1;
        i = j;
    }
    Req { path, raw, n, nseg, st, en, empty_seg }
}
impl Req {
    fn seg_is(&self, k: usize, lit: &[u8]) -> bool { k < self.nseg && self.en[k] - self.st[k] == lit.len() && eq_at(&self.raw[..], self.st[k], lit) }
    fn param_is_seg(&self, which: usize, k: usize) -> bool {
        let inner = self.path.v_inner();
        if inner.params_next() <= which { return false }
        let p = unsafe { inner.param_bytes(which) };
        p.len() == self.en[k] - self.st[k] && p.as_ptr() == unsafe { self.raw.as_ptr().add(self.st[k]) }
    }
}

/// T1:  ""  ->  [ "/us" -> [ :p ],  :p ]         routes: /us, /us/:p, /:p   (root "/" itself has the default handler slot)
#[kani::proof]
#[kani::unwind(10)]
fn c01_search_tree_us_param() {
    let grand = leak(vec![node(Pattern::Param, &[])]);
    let kids = leak(vec![node(Pattern::Static(b"/us"), grand), node(Pattern::Param, &[])]);
    let root = node(Pattern::Static(b""), kids);
    let mut r = any_request();
    let (target, hit) = root.search_target(&mut r.path);
    if r.empty_seg { return }   // empty segments ("//"): left unspecified, only memory safety / no panic is checked
    let us0 = r.seg_is(0, b"us");
    if r.nseg == 0 { assert!(hit && std::ptr::eq(target, &root), "/: the root node") }
    if r.nseg == 1 && us0 { assert!(hit && std::ptr::eq(target, &kids[0]), "/us: static segment matches the identical segment") }
    if r.nseg == 1 && !us0 { assert!(hit && std::ptr::eq(target, &kids[1]) && r.param_is_seg(0, 0), "/<other>: falls to the param route with the whole segment as param (also when it shares a byte prefix with `us`)") }
    if r.nseg == 2 && us0 { assert!(hit && std::ptr::eq(target, &grand[0]) && r.param_is_seg(0, 1), "/us/<x>: param under the static node, param == second segment") }
    if r.nseg == 2 && !us0 { assert!(!hit, "/<other>/<x>: no route => miss") }
    if r.nseg >= 3 { assert!(!hit, "three or more segments: no route => miss") }
    kani::cover!(r.nseg == 2 && us0);
    kani::cover!(r.nseg == 1 && !us0 && r.n == 4);
}

/// T2 (compressed single-child chain): "/api/v1" -> [ "/users" -> [ :id ], "/u" ]     routes: /api/v1/users, /api/v1/users/:id, /api/v1/u
#[kani::proof]
#[kani::unwind(10)]
fn c01_search_tree_compressed() {
    let grand = leak(vec![node(Pattern::Param, &[])]);
    let kids = leak(vec![node(Pattern::Static(b"/z"), grand), node(Pattern::Static(b"/y"), &[])]);
    let root = node(Pattern::Static(b"/a/b"), kids);
    let mut r = any_request();
    let (target, hit) = root.search_target(&mut r.path);
    if r.empty_seg { return }
    let pre = r.seg_is(0, b"a") && r.seg_is(1, b"b");
    if !pre { assert!(!hit, "anything not under /a/b (including /a/bX and /ab): miss") }
    if pre && r.nseg == 2 { assert!(hit && std::ptr::eq(target, &root), "/a/b: the compressed node") }
    if pre && r.nseg == 3 && r.seg_is(2, b"z") { assert!(hit && std::ptr::eq(target, &kids[0]), "/a/b/z") }
    if pre && r.nseg == 3 && r.seg_is(2, b"y") { assert!(hit && std::ptr::eq(target, &kids[1]), "/a/b/y") }
    if pre && r.nseg == 3 && !r.seg_is(2, b"z") && !r.seg_is(2, b"y") { assert!(!hit, "/a/b/<other> (including /a/b/zz, /a/b/yz): miss") }
    if pre && r.nseg == 4 && r.seg_is(2, b"z") { assert!(hit && std::ptr::eq(target, &grand[0]) && r.param_is_seg(0, 3), "/a/b/z/<id>: param == 4th segment") }
    if pre && r.nseg == 4 && !r.seg_is(2, b"z") { assert!(!hit, "/a/b/<not z>/<x>: miss") }
    kani::cover!(pre && r.nseg == 4 && r.seg_is(2, b"z"));
    kani::cover!(pre && r.nseg == 3 && hit);
}

/// T3 (two params, static preferred at depth 2):  "" -> [ :a -> [ "/x", :b ] ]      routes: /:a, /:a/x, /:a/:b
#[kani::proof]
#[kani::unwind(10)]
fn c01_search_tree_two_params() {
    let grand = leak(vec![node(Pattern::Static(b"/x"), &[]), node(Pattern::Param, &[])]);
    let kids = leak(vec![node(Pattern::Param, grand)]);
    let root = node(Pattern::Static(b""), kids);
    let mut r = any_request();
    let (target, hit) = root.search_target(&mut r.path);
    if r.empty_seg { return }
    if r.nseg == 1 { assert!(hit && std::ptr::eq(target, &kids[0]) && r.param_is_seg(0, 0), "/<a>") }
    if r.nseg == 2 && r.seg_is(1, b"x") { assert!(hit && std::ptr::eq(target, &grand[0]) && r.param_is_seg(0, 0), "/<a>/x: static alternative preferred to the param alternative") }
    if r.nseg == 2 && !r.seg_is(1, b"x") { assert!(hit && std::ptr::eq(target, &grand[1]) && r.param_is_seg(0, 0) && r.param_is_seg(1, 1), "/<a>/<b>: both params are the segments at their positions") }
    if r.nseg >= 3 { assert!(!hit, "three or more segments: miss") }
    kani::cover!(r.nseg == 2 && r.seg_is(1, b"x"));
    kani::cover!(r.nseg == 2 && !r.seg_is(1, b"x") && r.n == 8);
}

// ---- From<base::Node> for Node: the final tree satisfies the documented precondition of `search`
// (statics in reverse alphabetical order, the param child last), for every registration order and segment bytes,
// and a path equal to a static child reaches that child, not the param sibling ("the outcome does not depend on registration order",
// "a static alternative is preferred").
/// the default NotFound handler is a LazyLock'ed async closure: irrelevant for tree construction, replaced by the inert Dummy proc
fn stub_default_not_found() -> crate::fang::handler::Handler { crate::fang::handler::Handler { proc: BoxedFPC::from_proc(Dummy) } }
fn seg2(b: u8) -> &'static str {
    let raw: &'static mut [u8; 2] = Box::leak(Box::new([b'/', b]));
    unsafe { std::str::from_utf8_unchecked(raw) }
}
fn alnum(b: u8) -> bool { (b >= b'0' && b <= b'9') || (b >= b'a' && b <= b'z') || (b >= b'A' && b <= b'Z') || b == b'-' || b == b'_' || b == b'.' }
/// registration order k (one of the 6 permutations, a compile-time constant of the harness) of two static children /x, /y and a param child
fn finalize_orders_children_body(k: usize) {
    use base::__verif_c01::v_node;
    let (x, y): (u8, u8) = (kani::any(), kani::any());
    kani::assume(alnum(x) && alnum(y) && x != y);       // two distinct one-character static segments over the route alphabet (digits included)
    const PERMS: [[u8; 3]; 6] = [[0, 1, 2], [0, 2, 1], [1, 0, 2], [1, 2, 0], [2, 0, 1], [2, 1, 0]];
    let p = PERMS[k];
    let (sx, sy) = (seg2(x), seg2(y));
    let mut kids: Vec<base::Node> = Vec::with_capacity(3);
    let mut i = 0;
    while i < 3 {
        kids.push(match p[i] {
            0 => v_node(Some(base::Pattern::Static(std::borrow::Cow::Borrowed(sx))), true, vec![]),
            1 => v_node(Some(base::Pattern::Static(std::borrow::Cow::Borrowed(sy))), true, vec![]),
            _ => v_node(Some(base::Pattern::Param(std::borrow::Cow::Borrowed("p"))), true, vec![]),
        });
        i += 1;
    }
    let root = v_node(None, true, kids);
    let fin = Node::from(root);
    assert!(fin.children.len() == 3, "finalize: all three children kept");
    assert!(matches!(fin.children[2].pattern, Pattern::Param), "finalize: the param child is last, whatever the registration order");
    match (&fin.children[0].pattern, &fin.children[1].pattern) {
        (Pattern::Static(a), Pattern::Static(b)) => {
            assert!(a.len() == 2 && b.len() == 2 && a[0] == b'/' && b[0] == b'/', "finalize: static patterns keep their bytes");
            assert!(a[1] > b[1] && ((a[1] == x && b[1] == y) || (a[1] == y && b[1] == x)), "finalize: statics in reverse alphabetical order, whatever the registration order");
        }
        _ => assert!(false, "finalize: the two static children come before the param child"),
    }
    // and the search on the real final tree prefers the static alternative for BOTH static segments
    let raw: &'static [u8; 2] = Box::leak(Box::new([b'/', x]));
    let mut path = Path::uninit();
    assert!(path.init_with_request_bytes(&raw[..]).is_ok());
    let (t, hit) = fin.search_target(&mut path);
    assert!(hit && matches!(t.pattern, Pattern::Static(s) if s[1] == x), "finalize + search: `/x` reaches the static route /x, not the param sibling");
    std::mem::forget(fin); std::mem::forget(path);
    kani::cover!(x >= b'0' && x <= b'9' && y > b'a');
}
//@chunks 6 c01_finalize_orders_children finalize_orders_children_body #[kani::proof] #[kani::unwind(8)] #[kani::stub(crate::fang::handler::Handler::default_not_found, stub_default_not_found)]

/// compression of a single-static-child chain: "" -> "/a" -> "/b"(handler) becomes one node "/a/b"
#[kani::proof]
#[kani::unwind(8)]
#[kani::stub(crate::fang::handler::Handler::default_not_found, stub_default_not_found)]
fn c01_finalize_compresses_static_chain() {
    use base::__verif_c01::v_node;
    let leafs = vec![v_node(Some(base::Pattern::Param(std::borrow::Cow::Borrowed("p"))), true, vec![])];
    let b = v_node(Some(base::Pattern::Static(std::borrow::Cow::Borrowed("/b"))), true, leafs);
    let a = v_node(Some(base::Pattern::Static(std::borrow::Cow::Borrowed("/a"))), false, vec![b]);
    let root = v_node(None, false, vec![a]);
    let fin = Node::from(root);
    assert!(matches!(fin.pattern, Pattern::Static(s) if s.len() == 4 && s[0] == b'/' && s[1] == b'a' && s[2] == b'/' && s[3] == b'b'), "finalize: single static chain compressed to whole segments `/a/b`");
    assert!(fin.children.len() == 1 && matches!(fin.children[0].pattern, Pattern::Param), "finalize: the compressed node keeps the grandchildren");
}

/// T4 (static siblings sharing a byte prefix, separated by characters that sort below '/'):
///   "" -> [ "/a.b", "/a" -> [ "/c" ], :p ]        routes: /a.b, /a, /a/c, /:p
#[kani::proof]
#[kani::unwind(10)]
fn c01_search_tree_prefix_siblings() {
    let grand = leak(vec![node(Pattern::Static(b"/c"), &[])]);
    let kids = leak(vec![node(Pattern::Static(b"/a.b"), &[]), node(Pattern::Static(b"/a"), grand), node(Pattern::Param, &[])]);
    let root = node(Pattern::Static(b""), kids);
    let mut r = any_request();
    let (target, hit) = root.search_target(&mut r.path);
    if r.empty_seg { return }
    let (ab, a) = (r.seg_is(0, b"a.b"), r.seg_is(0, b"a"));
    if r.nseg == 1 && ab { assert!(hit && std::ptr::eq(target, &kids[0]), "/a.b: its own static route") }
    if r.nseg == 1 && a { assert!(hit && std::ptr::eq(target, &kids[1]), "/a: its own static route, not /a.b and not the param") }
    if r.nseg == 1 && !ab && !a { assert!(hit && std::ptr::eq(target, &kids[2]) && r.param_is_seg(0, 0), "/<other> (including /a.c, /a-b, /a.): the param route") }
    if r.nseg == 2 && a && r.seg_is(1, b"c") { assert!(hit && std::ptr::eq(target, &grand[0]), "/a/c: reached THROUGH /a although the sibling /a.b sorts first and shares its prefix") }
    if r.nseg == 2 && a && !r.seg_is(1, b"c") { assert!(!hit, "/a/<other>: miss") }
    if r.nseg == 2 && !a { assert!(!hit, "/<not a>/<x>: no route => miss") }
    if r.nseg >= 3 { assert!(!hit, "three or more segments: miss") }
    kani::cover!(r.nseg == 2 && a && r.seg_is(1, b"c"));
    kani::cover!(r.nseg == 1 && ab);
}

// ---- Router::handle: the tree of the request's method is searched; HEAD is answered by the GET tree without a body (headers kept);
// a miss runs the node's catch proc (404), not a handler
struct Answer { status: u16 }
impl FangProcCaller for Answer {
    fn call_bite<'b>(&'b self, _req: &'b mut Request) -> Pin<Box<dyn SendOnNativeFuture<Response> + 'b>> {
        let status = self.status;
        Box::pin(async move {
            let mut res = Response::new(match status { 200 => crate::Status::OK, 201 => crate::Status::Created, 202 => crate::Status::Accepted, 203 => crate::Status::NonAuthoritativeInformation,
                                                   205 => crate::Status::ResetContent, 206 => crate::Status::PartialContent, _ => crate::Status::NotFound });
            res.set_text("x");
            res
        })
    }
}
fn tree(status: u16) -> Node {
    // "" -> [ "/a" (handler answering `status`) ]; every miss is answered by the catch proc with 404
    let kids = leak(vec![Node { pattern: Pattern::Static(b"/a"), proc: BoxedFPC::from_proc(Answer { status }), catch: BoxedFPC::from_proc(Answer { status: 404 }), children: &[] }]);
    Node { pattern: Pattern::Static(b""), proc: BoxedFPC::from_proc(Answer { status: 404 }), catch: BoxedFPC::from_proc(Answer { status: 404 }), children: kids }
}
//@include spec/block_on.rs
fn stub_ts_c01() -> u64 { 0 }
/// k -> (method index 0..7, request for the registered path `/a` (hit) or `/b` (miss))
fn handle_dispatch_body(k: usize) {
    let router = Router { GET: tree(200), PUT: tree(201), POST: tree(202), PATCH: tree(203), DELETE: tree(205), OPTIONS: tree(206) };
    let mut req = Request::init(std::net::IpAddr::V4(std::net::Ipv4Addr::new(127, 0, 0, 1)));
    let (mi, hit) = (k % 7, k / 7 == 0);
    req.method = match mi { 0 => Method::GET, 1 => Method::PUT, 2 => Method::POST, 3 => Method::PATCH, 4 => Method::DELETE, 5 => Method::OPTIONS, _ => Method::HEAD };
    assert!(req.path.init_with_request_bytes(if hit { b"/a" } else { b"/b" }).is_ok());
    let res = vsupport::block_on(router.handle(&mut req));
    let want: u16 = if !hit { 404 } else { [200, 201, 202, 203, 205, 206, 200][mi] };
    assert!(res.status.code() == want, "Router::handle: the handler registered for the request's method on the matching route runs (HEAD: the GET handler); no route => 404, no handler");
    if mi == 6 {
        assert!(matches!(res.content, Content::None), "Router::handle: HEAD is answered without a body");
        assert!(matches!(res.headers.ContentLength(), Some("1")), "Router::handle: HEAD keeps the headers the GET handler declared");
    } else if want != 205 {
        assert!(matches!(&res.content, Content::Payload(p) if p.len() == 1), "Router::handle: the handler's body is delivered");
    }
    std::mem::forget(res); std::mem::forget(req); std::mem::forget(router);
    kani::cover!(true);
}
//@chunks 14 c01_handle_dispatch handle_dispatch_body #[kani::proof] #[kani::unwind(12)] #[kani::stub(crate::util::unix_timestamp, stub_ts_c01)]
