// C01 — router::base: constructors for harness use (base::Node's fields are pub(super); FangsList::new is private to this module)
use super::*;
pub(in crate::router) fn v_node(pattern: Option<Pattern>, with_handler: bool, children: Vec<Node>) -> Node {
    Node { pattern, handler: if with_handler { Some(Handler::default_not_found()) } else { None }, fangses: FangsList::new(), children }
}
