// C01 — request::path helpers used by the router harnesses + contract of Path::init_with_request_bytes
use super::*;

impl Path {
    pub(crate) fn v_inner(&self) -> &PathInner { unsafe { self.0.assume_init_ref() } }
}
impl PathInner {
    pub(crate) fn params_next(&self) -> usize { self.params.next }
    pub(crate) unsafe fn param_bytes<'p>(&self, i: usize) -> &'p [u8] { self.params.list.get_unchecked(i).assume_init_ref().as_bytes() }
}

// init_with_request_bytes: Err iff the target does not start with '/'; otherwise the normalized bytes are the input minus exactly ONE trailing '/'
fn stub_ts() -> u64 { 0 }   // the clock: an error response carries a Date header (SystemTime::now is not executable under Kani)
#[kani::proof]
#[kani::unwind(10)]
#[kani::stub(crate::util::unix_timestamp, stub_ts)]
fn c01_path_init_contract() {
    const L: usize = 8;
    let raw: [u8; L] = kani::any();
    let n: usize = kani::any();
    kani::assume(n >= 1 && n <= L);     // Request::read never passes an empty target (the request line has at least one byte before the space)
    let bytes = &raw[..n];
    let mut p = Path::uninit();
    let r = p.init_with_request_bytes(bytes);
    assert!(r.is_ok() == (bytes[0] == b'/'), "init: accepted iff origin-form (starts with '/')");
    if r.is_ok() {
        let nb = unsafe { p.normalized_bytes() };
        let want = if bytes[n - 1] == b'/' { n - 1 } else { n };
        assert!(nb.len() == want && nb.as_ptr() == bytes.as_ptr(), "init: exactly one trailing slash is ignored, nothing else changes");
        assert!(unsafe { p.0.assume_init_ref() }.params_next() == 0, "init: no params yet");
    }
    kani::cover!(r.is_ok() && n == 8 && bytes[7] == b'/' && bytes[6] == b'/');
    kani::cover!(r.is_err());
}
