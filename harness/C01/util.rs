// C01 — router::util::split_next_section (attribute contract injected above the fn)
use super::*;

/// postcondition: (a, b) partitions `path` at the first '/', a has no '/', b is empty or starts with '/', both are sub-slices of `path`
pub(super) fn split_post(path: &[u8], a: &[u8], b: &[u8]) -> bool {
    if a.len() + b.len() != path.len() { return false }
    if a.as_ptr() != path.as_ptr() { return false }
    if !b.is_empty() && (b.as_ptr() != unsafe { path.as_ptr().add(a.len()) } || b[0] != b'/') { return false }
    let mut i = 0;
    while i < a.len() { if a[i] == b'/' { return false } i += 1; }
    true
}

#[kani::proof_for_contract(split_next_section)]
#[kani::unwind(10)]
fn c01_split_next_section_contract() {
    const L: usize = 8;
    let raw: [u8; L] = kani::any();
    let n: usize = kani::any();
    kani::assume(n <= L);
    let (a, b) = split_next_section(&raw[..n]);
    kani::cover!(!b.is_empty() && !a.is_empty());
    kani::cover!(b.is_empty() && n == L);
}
