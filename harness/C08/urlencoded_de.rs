// C08 — serde_urlencoded::de: method-level totality contracts of URLEncodedDeserializer on an arbitrary cursor
// For every concrete input length n (harness per n) and BOTH parsing sides, with symbolic input bytes:
//   * the method returns Ok or Err (Kani's own obligations: no panic / unwrap on Err / overflow; every from_raw_parts inside the input)
//   * on return the cursor is a suffix of the original input
//   * every yielded str / String is valid UTF-8, every borrowed str lies inside the input
use super::*;
use serde::Deserialize;

const L: usize = 5;
fn stub_format(_: std::fmt::Arguments<'_>) -> String { String::new() }
//@include spec/utf8.rs
//@include spec/percent.rs

fn any_cursor(raw: &'static [u8; L], n: usize) -> URLEncodedDeserializer<'static> {
    let side = if kani::any() { ParsingSide::Key } else { ParsingSide::Value };
    URLEncodedDeserializer { input: &raw[..n], side }
}
fn is_suffix(de: &URLEncodedDeserializer<'static>, raw: &'static [u8; L], n: usize) -> bool {
    let (p, l) = (de.input.as_ptr() as usize, de.input.len());
    let base = raw.as_ptr() as usize;
    l <= n && (l == 0 || p + l == base + n)
}
fn inside(s: &[u8], raw: &'static [u8; L], n: usize) -> bool {
    let (p, base) = (s.as_ptr() as usize, raw.as_ptr() as usize);
    s.is_empty() || (p >= base && p + s.len() <= base + n)
}

macro_rules! scalar_total {
    ($body:ident, $t:ty) => {
        fn $body(n: usize) {
            let raw: &'static [u8; L] = Box::leak(Box::new(kani::any()));
            let mut de = any_cursor(raw, n);
            kani::assume(de.side == ParsingSide::Value);   // serde calls scalar methods on the value side (debug_assert in the code); the key side is covered by str/identifier
            let r = <$t>::deserialize(&mut de);
            assert!(is_suffix(&de, raw, n), "decoder cursor stays a suffix of the input");
            kani::cover!(r.is_ok() || n == 0 || (std::mem::size_of::<$t>() == 1 && std::any::type_name::<$t>().len() == 4 && n < 4));
            kani::cover!(r.is_err());
        }
    };
}
scalar_total!(bool_body, bool);
scalar_total!(u8_body, u8);
scalar_total!(i8_body, i8);
scalar_total!(u16_body, u16);
scalar_total!(i32_body, i32);
scalar_total!(u64_body, u64);
scalar_total!(i64_body, i64);
//@chunks 5 c08_url_bool_total bool_body #[kani::proof] #[kani::unwind(8)] #[kani::stub(alloc::fmt::format, stub_format)] #[kani::stub(crate::percent_encoding::percent_decode, spec_percent_decode)] #[kani::stub(crate::percent_encoding::percent_decode_utf8, spec_percent_decode_utf8)]
//@chunks 5 c08_url_u8_total u8_body #[kani::proof] #[kani::unwind(8)] #[kani::stub(alloc::fmt::format, stub_format)] #[kani::stub(crate::percent_encoding::percent_decode, spec_percent_decode)] #[kani::stub(crate::percent_encoding::percent_decode_utf8, spec_percent_decode_utf8)]
//@chunks 5 c08_url_i8_total i8_body #[kani::proof] #[kani::unwind(8)] #[kani::stub(alloc::fmt::format, stub_format)] #[kani::stub(crate::percent_encoding::percent_decode, spec_percent_decode)] #[kani::stub(crate::percent_encoding::percent_decode_utf8, spec_percent_decode_utf8)]
//@chunks 5 c08_url_u16_total u16_body #[kani::proof] #[kani::unwind(8)] #[kani::stub(alloc::fmt::format, stub_format)] #[kani::stub(crate::percent_encoding::percent_decode, spec_percent_decode)] #[kani::stub(crate::percent_encoding::percent_decode_utf8, spec_percent_decode_utf8)]
//@chunks 5 c08_url_i32_total i32_body #[kani::proof] #[kani::unwind(8)] #[kani::stub(alloc::fmt::format, stub_format)] #[kani::stub(crate::percent_encoding::percent_decode, spec_percent_decode)] #[kani::stub(crate::percent_encoding::percent_decode_utf8, spec_percent_decode_utf8)]
//@chunks 5 c08_url_u64_total u64_body #[kani::proof] #[kani::unwind(8)] #[kani::stub(alloc::fmt::format, stub_format)] #[kani::stub(crate::percent_encoding::percent_decode, spec_percent_decode)] #[kani::stub(crate::percent_encoding::percent_decode_utf8, spec_percent_decode_utf8)]
//@chunks 5 c08_url_i64_total i64_body #[kani::proof] #[kani::unwind(8)] #[kani::stub(alloc::fmt::format, stub_format)] #[kani::stub(crate::percent_encoding::percent_decode, spec_percent_decode)] #[kani::stub(crate::percent_encoding::percent_decode_utf8, spec_percent_decode_utf8)]

// &str (borrowed): valid UTF-8, inside the input
fn str_body(n: usize) {
    let raw: &'static [u8; L] = Box::leak(Box::new(kani::any()));
    let mut de = any_cursor(raw, n);
    let r = <&str>::deserialize(&mut de);
    assert!(is_suffix(&de, raw, n), "decoder cursor stays a suffix of the input");
    if let Ok(s) = r {
        assert!(spec_utf8(s.as_bytes()), "yielded &str is valid UTF-8");
        assert!(inside(s.as_bytes(), raw, n), "borrowed &str lies inside the input");
    }
    kani::cover!(r.is_ok());
    kani::cover!(r.is_err());
}
//@chunks 5 c08_url_str_total str_body #[kani::proof] #[kani::unwind(8)] #[kani::stub(alloc::fmt::format, stub_format)] #[kani::stub(crate::percent_encoding::percent_decode, spec_percent_decode)] #[kani::stub(crate::percent_encoding::percent_decode_utf8, spec_percent_decode_utf8)]

// String (percent-decoded): valid UTF-8
fn string_body(n: usize) {
    let raw: &'static [u8; L] = Box::leak(Box::new(kani::any()));
    let mut de = any_cursor(raw, n);
    let r = String::deserialize(&mut de);
    assert!(is_suffix(&de, raw, n), "decoder cursor stays a suffix of the input");
    if let Ok(s) = &r { assert!(spec_utf8(s.as_bytes()), "yielded String is valid UTF-8"); }
    kani::cover!(r.is_ok());
    kani::cover!(r.is_err());
}
//@chunks 5 c08_url_string_total string_body #[kani::proof] #[kani::unwind(8)] #[kani::stub(alloc::fmt::format, stub_format)] #[kani::stub(crate::percent_encoding::percent_decode, spec_percent_decode)] #[kani::stub(crate::percent_encoding::percent_decode_utf8, spec_percent_decode_utf8)]

fn char_body(n: usize) {
    let raw: &'static [u8; L] = Box::leak(Box::new(kani::any()));
    let mut de = any_cursor(raw, n);
    let r = char::deserialize(&mut de);
    assert!(is_suffix(&de, raw, n), "decoder cursor stays a suffix of the input");
    kani::cover!(r.is_ok() || n < 2);
}
//@chunks 5 c08_url_char_total char_body #[kani::proof] #[kani::unwind(8)] #[kani::stub(alloc::fmt::format, stub_format)] #[kani::stub(crate::percent_encoding::percent_decode, spec_percent_decode)] #[kani::stub(crate::percent_encoding::percent_decode_utf8, spec_percent_decode_utf8)]

fn option_unit_body(n: usize) {
    let raw: &'static [u8; L] = Box::leak(Box::new(kani::any()));
    let mut de = any_cursor(raw, n);
    kani::assume(de.side == ParsingSide::Value);
    if kani::any() {
        let r = <Option<u8>>::deserialize(&mut de);
        kani::cover!(matches!(r, Ok(None)));
    } else {
        let r = <()>::deserialize(&mut de);
        kani::cover!(r.is_ok());
    }
    assert!(is_suffix(&de, raw, n), "decoder cursor stays a suffix of the input");
}
//@chunks 5 c08_url_option_unit_total option_unit_body #[kani::proof] #[kani::unwind(8)] #[kani::stub(alloc::fmt::format, stub_format)] #[kani::stub(crate::percent_encoding::percent_decode, spec_percent_decode)] #[kani::stub(crate::percent_encoding::percent_decode_utf8, spec_percent_decode_utf8)]

// sequences (comma separated) and ignored values
fn seq_ignored_body(n: usize) {
    let raw: &'static [u8; L] = Box::leak(Box::new(kani::any()));
    let mut de = any_cursor(raw, n);
    kani::assume(de.side == ParsingSide::Value);
    if kani::any() {
        let r = <(u8, u8)>::deserialize(&mut de);
        kani::cover!(r.is_err());   // (a 2-element sequence is currently never accepted: the comma reader rejects its own separator -- C09)
    } else {
        let r = serde::de::IgnoredAny::deserialize(&mut de);
        kani::cover!(r.is_ok());
    }
    assert!(is_suffix(&de, raw, n), "decoder cursor stays a suffix of the input");
}
//@chunks 5 c08_url_seq_ignored_total seq_ignored_body #[kani::proof] #[kani::unwind(8)] #[kani::stub(alloc::fmt::format, stub_format)] #[kani::stub(crate::percent_encoding::percent_decode, spec_percent_decode)] #[kani::stub(crate::percent_encoding::percent_decode_utf8, spec_percent_decode_utf8)]

// map steps: next_key_seed / next_value_seed from an arbitrary cursor
fn map_step_body(n: usize) {
    use serde::de::MapAccess;
    let raw: &'static [u8; L] = Box::leak(Box::new(kani::any()));
    let mut de = any_cursor(raw, n);
    let first: bool = kani::any();
    let mut acc = AmpersandSeparated { de: &mut de, first };
    if kani::any() {
        let r = acc.next_key_seed(std::marker::PhantomData::<&str>);
        if let Ok(Some(k)) = r { assert!(inside(k.as_bytes(), raw, n) && spec_utf8(k.as_bytes()), "map key: valid UTF-8 inside the input"); }
    } else {
        let r = acc.next_value_seed(std::marker::PhantomData::<u8>);
        kani::cover!(r.is_ok() || n < 2);
    }
    assert!(is_suffix(&de, raw, n), "decoder cursor stays a suffix of the input");
}
//@chunks 5 c08_url_map_step_total map_step_body #[kani::proof] #[kani::unwind(8)] #[kani::stub(alloc::fmt::format, stub_format)] #[kani::stub(crate::percent_encoding::percent_decode, spec_percent_decode)] #[kani::stub(crate::percent_encoding::percent_decode_utf8, spec_percent_decode_utf8)]

// unit-variant enums (value place): EnumAccess::variant_seed
fn enum_body(n: usize) {
    use serde::de::EnumAccess;
    let raw: &'static [u8; L] = Box::leak(Box::new(kani::any()));
    let mut de = any_cursor(raw, n);
    let r = Enum::new(&mut de).variant_seed(std::marker::PhantomData::<serde::de::IgnoredAny>);
    kani::cover!(r.is_ok());
    drop(r);
    assert!(is_suffix(&de, raw, n), "decoder cursor stays a suffix of the input");
}
//@chunks 5 c08_url_enum_total enum_body #[kani::proof] #[kani::unwind(8)] #[kani::stub(alloc::fmt::format, stub_format)] #[kani::stub(crate::percent_encoding::percent_decode, spec_percent_decode)] #[kani::stub(crate::percent_encoding::percent_decode_utf8, spec_percent_decode_utf8)]
