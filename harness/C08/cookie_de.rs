// C08 / C11 — serde_cookie::de::valid::{name, value}: totality, UTF-8 validity, alphabets
use super::*;
const L: usize = 5;
fn stub_format(_: std::fmt::Arguments<'_>) -> String { String::new() }
//@include spec/utf8.rs
//@include spec/percent.rs

fn cookie_value_body(n: usize) {
    let raw: &'static [u8; L] = Box::leak(Box::new(kani::any()));
    let r = valid::value(&raw[..n]);
    if let Ok(v) = &r {
        assert!(spec_utf8(v.as_bytes()), "cookie value: the yielded string is valid UTF-8 (also after percent-decoding)");
    }
    kani::cover!(r.is_ok());
    kani::cover!(r.is_err() || n == 0);
}
//@chunks 6 c08_cookie_value_total cookie_value_body #[kani::proof] #[kani::unwind(8)] #[kani::stub(alloc::fmt::format, stub_format)] #[kani::stub(crate::percent_encoding::percent_decode, spec_percent_decode)] #[kani::stub(crate::percent_encoding::percent_decode_utf8, spec_percent_decode_utf8)]

fn cookie_name_body(n: usize) {
    let raw: &'static [u8; L] = Box::leak(Box::new(kani::any()));
    let r = valid::name(&raw[..n]);
    if let Ok(v) = r {
        assert!(v.len() == n && v.as_ptr() == raw.as_ptr(), "cookie name: the input itself");
        let mut i = 0;
        while i < n { assert!(raw[i] > 32 && raw[i] < 127 && raw[i] != b'=' && raw[i] != b';' && raw[i] != b',' && raw[i] != b' ', "cookie name: RFC 6265 token characters only"); i += 1; }
    }
    kani::cover!(r.is_ok());
    kani::cover!(r.is_err() || n == 0);
}
//@chunks 6 c08_cookie_name_total cookie_name_body #[kani::proof] #[kani::unwind(8)] #[kani::stub(alloc::fmt::format, stub_format)] #[kani::stub(crate::percent_encoding::percent_decode, spec_percent_decode)] #[kani::stub(crate::percent_encoding::percent_decode_utf8, spec_percent_decode_utf8)]

// template with symbolic holes: one percent-escape `%XY` (X, Y any bytes): whatever it decodes to, the yielded string must be valid UTF-8
#[kani::proof]
#[kani::unwind(8)]
#[kani::stub(alloc::fmt::format, stub_format)] #[kani::stub(crate::percent_encoding::percent_decode, spec_percent_decode)] #[kani::stub(crate::percent_encoding::percent_decode_utf8, spec_percent_decode_utf8)]
fn c08_cookie_value_escape_template() {
    let x: u8 = kani::any();
    let y: u8 = kani::any();
    let raw: [u8; 3] = [b'%', x, y];
    let r = valid::value(&raw);
    if let Ok(v) = &r {
        assert!(spec_utf8(v.as_bytes()), "cookie value: the yielded string is valid UTF-8 (also after percent-decoding)");
    }
    kani::cover!(r.is_ok());
}
