// C08 / C11 — serde_cookie::de::valid::{name, value}: totality, UTF-8 validity, alphabets
use super::*;
const L: usize = 5;
fn stub_format(_: std::fmt::Arguments<'_>) -> String { String::new() }
//@include spec/utf8.rs
//@include spec/percent.rs

fn cookie_value_body(n: usize) {
    let raw: &'static [u8; L] = Box::leak(Box::new(kani::any()));
    let r = valid::value(&raw[..n]);
    if let Ok(v) = &r {
        assert!(spec_utf8(v.as_bytes()), "cookie value: the yielded string is valid UTF-8 (also after percent-decoding)");
    }
    kani::cover!(r.is_ok());
    kani::cover!(r.is_err() || n == 0);
}
//@chunks 6 c08_cookie_value_total cookie_value_body #[kani::proof] #[kani::unwind(8)] #[kani::stub(alloc::fmt::format, stub_format)] #[kani::stub(crate::percent_encoding::percent_decode, spec_percent_decode)] #[kani::stub(crate::percent_encoding::percent_decode_utf8, spec_percent_decode_utf8)]

fn cookie_name_body(n: usize) {
    let raw: &'static [u8; L] = Box::leak(Box::new(kani::any()));
    let r = valid::name(&raw[..n]);
    if let Ok(v) = r {
        assert!(v.len() == n && v.as_ptr() == raw.as_ptr(), "cookie name: the input itself");
        let mut i = 0;
        while i < n { assert!(raw[i] > 32 && raw[i] < 127 && raw[i] != b'=' && raw[i] != b';' && raw[i] != b',' && raw[i] != b' ', "cookie name: RFC 6265 token characters only"); i += 1; }
    }
    kani::cover!(r.is_ok());
    kani::cover!(r.is_err() || n == 0);
}
//@chunks 6 c08_cookie_name_total cookie_name_body #[kani::proof] #[kani::unwind(8)] #[kani::stub(alloc::fmt::format, stub_format)] #[kani::stub(crate::percent_encoding::percent_decode, spec_percent_decode)] #[kani::stub(crate::percent_encoding::percent_decode_utf8, spec_percent_decode_utf8)]

// template with symbolic holes: one percent-escape `%XY` (X, Y any bytes): whatever it decodes to, the yielded string must be valid UTF-8
#[kani::proof]
#[kani::unwind(8)]
#[kani::stub(alloc::fmt::format, stub_format)] #[kani::stub(crate::percent_encoding::percent_decode, spec_percent_decode)] #[kani::stub(crate::percent_encoding::percent_decode_utf8, spec_percent_decode_utf8)]
fn c08_cookie_value_escape_template() {
    let x: u8 = kani::any();
    let y: u8 = kani::any();
    let raw: [u8; 3] = [b'%', x, y];
    let r = valid::value(&raw);
    if let Ok(v) = &r {
        assert!(spec_utf8(v.as_bytes()), "cookie value: the yielded string is valid UTF-8 (also after percent-decoding)");
    }
    kani::cover!(r.is_ok());
}

// ---- CookieDeserializer: map steps and scalar/str methods from an ARBITRARY cursor (same contract as the urlencoded methods)
fn any_cookie_cursor(raw: &'static [u8; L], n: usize) -> CookieDeserializer<'static> {
    let side = if kani::any() { ParsingSide::Name } else { ParsingSide::Value };
    CookieDeserializer { input: &raw[..n], side }
}
fn cookie_is_suffix(de: &CookieDeserializer<'static>, raw: &'static [u8; L], n: usize) -> bool {
    let (p, l) = (de.input.as_ptr() as usize, de.input.len());
    l <= n && (l == 0 || p + l == raw.as_ptr() as usize + n)
}
fn cookie_map_step_body(n: usize) {
    use serde::de::MapAccess;
    let raw: &'static [u8; L] = Box::leak(Box::new(kani::any()));
    let mut de = any_cookie_cursor(raw, n);
    let first: bool = kani::any();
    let mut acc = AmpersandSeparated { de: &mut de, first };
    if kani::any() {
        let r = acc.next_key_seed(std::marker::PhantomData::<&str>);
        if let Ok(Some(k)) = r { assert!(spec_utf8(k.as_bytes()), "cookie map key: valid UTF-8"); }
    } else {
        let r = acc.next_value_seed(std::marker::PhantomData::<String>);
        if let Ok(s) = &r { assert!(spec_utf8(s.as_bytes()), "cookie map value: valid UTF-8"); }
    }
    assert!(cookie_is_suffix(&de, raw, n), "cookie decoder cursor stays a suffix of the input");
    kani::cover!(true);
}
//@chunks 5 c08_cookie_map_step_total cookie_map_step_body #[kani::proof] #[kani::unwind(8)] #[kani::stub(alloc::fmt::format, stub_format)] #[kani::stub(crate::percent_encoding::percent_decode, spec_percent_decode)] #[kani::stub(crate::percent_encoding::percent_decode_utf8, spec_percent_decode_utf8)]

macro_rules! cookie_scalar_total {
    ($body:ident, $t:ty) => {
        fn $body(n: usize) {
            let raw: &'static [u8; L] = Box::leak(Box::new(kani::any()));
            let mut de = any_cookie_cursor(raw, n);
            kani::assume(de.side == ParsingSide::Value);
            let r = <$t>::deserialize(&mut de);
            assert!(cookie_is_suffix(&de, raw, n), "cookie decoder cursor stays a suffix of the input");
            kani::cover!(r.is_err() || n == 0);
        }
    };
}
use serde::Deserialize;
cookie_scalar_total!(cookie_u8_body, u8);
cookie_scalar_total!(cookie_bool_body, bool);
cookie_scalar_total!(cookie_i64_body, i64);
cookie_scalar_total!(cookie_option_body, Option<u8>);
cookie_scalar_total!(cookie_unit_body, ());
//@chunks 5 c08_cookie_u8_total cookie_u8_body #[kani::proof] #[kani::unwind(8)] #[kani::stub(alloc::fmt::format, stub_format)] #[kani::stub(crate::percent_encoding::percent_decode, spec_percent_decode)] #[kani::stub(crate::percent_encoding::percent_decode_utf8, spec_percent_decode_utf8)]
//@chunks 5 c08_cookie_bool_total cookie_bool_body #[kani::proof] #[kani::unwind(8)] #[kani::stub(alloc::fmt::format, stub_format)] #[kani::stub(crate::percent_encoding::percent_decode, spec_percent_decode)] #[kani::stub(crate::percent_encoding::percent_decode_utf8, spec_percent_decode_utf8)]
//@chunks 5 c08_cookie_i64_total cookie_i64_body #[kani::proof] #[kani::unwind(8)] #[kani::stub(alloc::fmt::format, stub_format)] #[kani::stub(crate::percent_encoding::percent_decode, spec_percent_decode)] #[kani::stub(crate::percent_encoding::percent_decode_utf8, spec_percent_decode_utf8)]
//@chunks 5 c08_cookie_option_total cookie_option_body #[kani::proof] #[kani::unwind(8)] #[kani::stub(alloc::fmt::format, stub_format)] #[kani::stub(crate::percent_encoding::percent_decode, spec_percent_decode)] #[kani::stub(crate::percent_encoding::percent_decode_utf8, spec_percent_decode_utf8)]
//@chunks 5 c08_cookie_unit_total cookie_unit_body #[kani::proof] #[kani::unwind(8)] #[kani::stub(alloc::fmt::format, stub_format)] #[kani::stub(crate::percent_encoding::percent_decode, spec_percent_decode)] #[kani::stub(crate::percent_encoding::percent_decode_utf8, spec_percent_decode_utf8)]
