// C08 / C09 — ohkami_lib::percent_encoding::{percent_decode, percent_decode_utf8}: ohkami's OWN wrappers around the external percent-encoding
// crate.  Everywhere else the wrappers are replaced by the assumed contract spec/percent.rs; here the REAL wrappers (and the real crate under
// them) are run on enumerated templates and compared with that same reference, so that the assumption made elsewhere is a checked one for
// these shapes, and a change inside the wrappers (fast paths, length checks) is noticed.
use super::*;
//@include spec/utf8.rs
//@include spec/percent.rs
//@include spec/from_utf8_stub.rs
fn eqb(a: &[u8], b: &[u8]) -> bool { if a.len() != b.len() { return false } let mut i = 0; while i < a.len() { if a[i] != b[i] { return false } i += 1; } true }

/// ENUMERATED CONCRETE inputs (with symbolic bytes the real crate's decoder is out of CBMC's reach: 27 GB for the template `%XX`, measured)
fn wrapper_body(k: usize) {
    const T: [&[u8]; 16] = [b"", b"a", b"%", b"%4", b"%41", b"a%41", b"%41a", b"ab%41", b"%41%42", b"a%4", b"%41%", b"abc%3F", b"%zz", b"%4g", b"%E7%8B%BC", b"%ff"];
    let input: &'static [u8] = T[k];
    let want = spec_percent_decode(input);
    let got = percent_decode(input);
    assert!(eqb(&got, &want), "percent_decode: every %XY with two hex digits becomes that byte, everything else is kept verbatim (RFC 3986)");
    let got8 = percent_decode_utf8(input);
    match &got8 {
        Ok(s) => assert!(spec_utf8(&want) && eqb(s.as_bytes(), &want), "percent_decode_utf8: Ok(s) => s is the decoding and is valid UTF-8"),
        Err(_) => assert!(!spec_utf8(&want), "percent_decode_utf8: an error only when the decoding is not valid UTF-8"),
    }
    std::mem::forget(got); std::mem::forget(got8); std::mem::forget(want);
}
//@chunks 16 c08_percent_wrapper wrapper_body #[kani::proof] #[kani::unwind(12)] #[kani::stub(std::str::from_utf8, stub_from_utf8)]
