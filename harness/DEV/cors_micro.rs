// C14 — fang::builtin::cors: CORSProc::bite applies the configured policy to whatever response the inner proc produced, and
// Handler::default_options_with (the auto-registered OPTIONS handler the CORS fang builds on) admits a preflight iff the
// requested method is one of the methods handed to it (plus HEAD with GET, plus OPTIONS).
// Which methods are handed to default_options_with for a path is decided at registration time (router/base.rs) and is NOT
// under contract here.
use super::*;
//@include spec/block_on.rs
use vsupport::block_on;
use ohkami_lib::{CowSlice, Slice};
use crate::request::RequestHeader;
use crate::fang::FangProcCaller;
use crate::fang::handler::Handler;
use crate::Method;
//@include spec/utf8.rs
//@include spec/from_utf8_stub.rs

fn stub_ts() -> u64 { 0 }
fn eqb(a: &[u8], b: &[u8]) -> bool { if a.len() != b.len() { return false } let mut i = 0; while i < a.len() { if a[i] != b[i] { return false } i += 1; } true }
fn is(got: Option<&str>, want: Option<&[u8]>) -> bool {
    match (got, want) { (None, None) => true, (Some(g), Some(w)) => eqb(g.as_bytes(), w), _ => false }
}

/// inner proc: answers with the given status and a 2-byte text body (so Content-Type / Content-Length are present before CORS acts)
struct Inner { status: u8 }
impl FangProc for Inner {
    async fn bite<'b>(&'b self, _req: &'b mut Request) -> Response {
        let mut res = Response::new(match self.status { 0 => Status::OK, 1 => Status::NotImplemented, 2 => Status::NotFound, _ => Status::BadRequest });
        res.set_text("hi");
        res
    }
}

/// shape bits: 0 wildcard origin, 1 credentials requested, 2 expose headers, 3 max-age, 4 configured allow-headers,
///             5 request is OPTIONS, 6 request carries Access-Control-Request-Headers;  inner status = shape / 128 (0..4)
fn v1_body(shape: usize) {
    // every bit is a compile-time constant of the harness (the shape of the execution is concrete, only the echoed header bytes are symbolic)
    let (any, cred, expose, maxage, allowh, options, acrh) = (shape & 1 != 0, shape & 2 != 0, shape & 4 != 0, shape & 8 != 0, shape & 16 != 0, shape & 32 != 0, shape & 64 != 0);
    let inner_status = (shape / 128) as u8;
    let mut cors = CORS::new(if any { "*" } else { "https://a.example" });
    if cred { cors = cors.AllowCredentials(); }
    if expose { cors = cors.ExposeHeaders(["X-A", "X-B"]); }
    if maxage { cors = cors.MaxAge(600); }
    if allowh { cors = cors.AllowHeaders(["X-C"]); }
    let proc_ = cors.chain(Inner { status: inner_status });
    let mut req = Request::init(std::net::IpAddr::V4(std::net::Ipv4Addr::new(127, 0, 0, 1)));
    req.method = if options { Method::OPTIONS } else { Method::GET };
    let echoed_copy = [b'a', b'b', b'c'];
    let res = block_on(proc_.bite(&mut req));
    let h = &res.headers;
    // every response
    assert!(is(h.AccessControlAllowOrigin(), Some(if any { b"*" } else { b"https://a.example" })), "CORS: Access-Control-Allow-Origin equals the configured origin on every response");
    assert!(is(h.AccessControlAllowCredentials(), if cred && !any { Some(b"true") } else { None }), "CORS: Access-Control-Allow-Credentials: true iff credentials were enabled on a non-wildcard origin");
    assert!(is(h.AccessControlExposeHeaders(), if expose { Some(b"X-A, X-B") } else { None }), "CORS: the configured exposed headers, on every response");
    if options {
        assert!(is(h.AccessControlMaxAge(), if maxage { Some(b"600") } else { None }), "CORS preflight: the configured max-age");
        let want_allow: Option<&[u8]> = if allowh { Some(b"X-C") } else if acrh { Some(&echoed_copy[..]) } else { None };
        assert!(is(h.AccessControlAllowHeaders(), want_allow), "CORS preflight: the configured request headers, else the echoed Access-Control-Request-Headers");
        if inner_status == 1 {
            assert!(res.status == Status::OK, "CORS preflight: a valid preflight (501 from the default OPTIONS handler) succeeds");
            assert!(h.ContentType().is_none() && h.ContentLength().is_none(), "CORS preflight: the successful preflight declares no body");
        } else {
            assert!(res.status == (match inner_status { 0 => Status::OK, 2 => Status::NotFound, _ => Status::BadRequest }), "CORS preflight: any other inner status (400 for an unregistered method, 404) is passed through");
        }
    } else {
        assert!(h.AccessControlMaxAge().is_none() && h.AccessControlAllowHeaders().is_none() && h.AccessControlAllowMethods().is_none(), "CORS: preflight-only headers are not put on ordinary responses");
        assert!(res.status == (match inner_status { 0 => Status::OK, 1 => Status::NotImplemented, 2 => Status::NotFound, _ => Status::BadRequest }), "CORS: the status of an ordinary response is untouched");
        assert!(is(h.ContentLength(), Some(b"2")), "CORS: the body declaration of an ordinary response is untouched");
    }
    kani::cover!(true);
}
/// shape bits: 0 wildcard origin, 1 credentials requested, 2 expose headers, 3 max-age, 4 configured allow-headers,
///             5 request is OPTIONS, 6 request carries Access-Control-Request-Headers;  inner status = shape / 128 (0..4)
fn v2_body(shape: usize) {
    // every bit is a compile-time constant of the harness (the shape of the execution is concrete, only the echoed header bytes are symbolic)
    let (any, cred, expose, maxage, allowh, options, acrh) = (shape & 1 != 0, shape & 2 != 0, shape & 4 != 0, shape & 8 != 0, shape & 16 != 0, shape & 32 != 0, shape & 64 != 0);
    let inner_status = (shape / 128) as u8;
    let mut cors = CORS::new(if any { "*" } else { "https://a.example" });
    if cred { cors = cors.AllowCredentials(); }
    if expose { cors = cors.ExposeHeaders(["X-A", "X-B"]); }
    if maxage { cors = cors.MaxAge(600); }
    if allowh { cors = cors.AllowHeaders(["X-C"]); }
    let proc_ = cors.chain(Inner { status: inner_status });
    let mut req = Request::init(std::net::IpAddr::V4(std::net::Ipv4Addr::new(127, 0, 0, 1)));
    req.method = if options { Method::OPTIONS } else { Method::GET };
    let echoed: &'static mut [u8; 3] = Box::leak(Box::new(kani::any()));
    kani::assume(echoed[0] >= 0x21 && echoed[0] < 0x7f && echoed[1] >= 0x21 && echoed[1] < 0x7f && echoed[2] >= 0x21 && echoed[2] < 0x7f);
    let echoed_copy = *echoed;
    if acrh { req.headers.append(RequestHeader::AccessControlRequestHeaders, CowSlice::Ref(Slice::from_bytes(&echoed[..]))); }
    let res = block_on(proc_.bite(&mut req));
    let h = &res.headers;
    // every response
    assert!(is(h.AccessControlAllowOrigin(), Some(if any { b"*" } else { b"https://a.example" })), "CORS: Access-Control-Allow-Origin equals the configured origin on every response");
    kani::cover!(true);
}
/// shape bits: 0 wildcard origin, 1 credentials requested, 2 expose headers, 3 max-age, 4 configured allow-headers,
///             5 request is OPTIONS, 6 request carries Access-Control-Request-Headers;  inner status = shape / 128 (0..4)
fn v3_body(shape: usize) {
    // every bit is a compile-time constant of the harness (the shape of the execution is concrete, only the echoed header bytes are symbolic)
    let (any, cred, expose, maxage, allowh, options, acrh) = (shape & 1 != 0, shape & 2 != 0, shape & 4 != 0, shape & 8 != 0, shape & 16 != 0, shape & 32 != 0, shape & 64 != 0);
    let inner_status = (shape / 128) as u8;
    let mut cors = CORS::new(if any { "*" } else { "https://a.example" });
    if cred { cors = cors.AllowCredentials(); }
    if expose { cors = cors.ExposeHeaders(["X-A", "X-B"]); }
    if maxage { cors = cors.MaxAge(600); }
    if allowh { cors = cors.AllowHeaders(["X-C"]); }
    let proc_ = cors.chain(Inner { status: inner_status });
    let mut req = Request::init(std::net::IpAddr::V4(std::net::Ipv4Addr::new(127, 0, 0, 1)));
    req.method = if options { Method::OPTIONS } else { Method::GET };
    let echoed: &'static mut [u8; 3] = Box::leak(Box::new(kani::any()));
    kani::assume(echoed[0] >= 0x21 && echoed[0] < 0x7f && echoed[1] >= 0x21 && echoed[1] < 0x7f && echoed[2] >= 0x21 && echoed[2] < 0x7f);
    let echoed_copy = *echoed;
    if acrh { req.headers.append(RequestHeader::AccessControlRequestHeaders, CowSlice::Ref(Slice::from_bytes(&echoed[..]))); }
    let res = block_on(proc_.bite(&mut req));
    let h = &res.headers;
    // every response
    assert!(is(h.AccessControlAllowOrigin(), Some(if any { b"*" } else { b"https://a.example" })), "CORS: Access-Control-Allow-Origin equals the configured origin on every response");
    assert!(is(h.AccessControlAllowCredentials(), if cred && !any { Some(b"true") } else { None }), "CORS: Access-Control-Allow-Credentials: true iff credentials were enabled on a non-wildcard origin");
    assert!(is(h.AccessControlExposeHeaders(), if expose { Some(b"X-A, X-B") } else { None }), "CORS: the configured exposed headers, on every response");
    if options {
        assert!(is(h.AccessControlMaxAge(), if maxage { Some(b"600") } else { None }), "CORS preflight: the configured max-age");
        let want_allow: Option<&[u8]> = if allowh { Some(b"X-C") } else if acrh { Some(&echoed_copy[..]) } else { None };
        assert!(is(h.AccessControlAllowHeaders(), want_allow), "CORS preflight: the configured request headers, else the echoed Access-Control-Request-Headers");
        if inner_status == 1 {
            assert!(res.status == Status::OK, "CORS preflight: a valid preflight (501 from the default OPTIONS handler) succeeds");
            assert!(h.ContentType().is_none() && h.ContentLength().is_none(), "CORS preflight: the successful preflight declares no body");
        } else {
            assert!(res.status == (match inner_status { 0 => Status::OK, 2 => Status::NotFound, _ => Status::BadRequest }), "CORS preflight: any other inner status (400 for an unregistered method, 404) is passed through");
        }
    } else {
        assert!(h.AccessControlMaxAge().is_none() && h.AccessControlAllowHeaders().is_none() && h.AccessControlAllowMethods().is_none(), "CORS: preflight-only headers are not put on ordinary responses");
        assert!(res.status == (match inner_status { 0 => Status::OK, 1 => Status::NotImplemented, 2 => Status::NotFound, _ => Status::BadRequest }), "CORS: the status of an ordinary response is untouched");
        assert!(is(h.ContentLength(), Some(b"2")), "CORS: the body declaration of an ordinary response is untouched");
    }
    std::mem::forget(res); std::mem::forget(req); std::mem::forget(proc_);
    kani::cover!(true);
}
#[kani::proof] #[kani::unwind(24)] #[kani::stub(crate::util::unix_timestamp, stub_ts)] #[kani::stub(std::str::from_utf8, stub_from_utf8)]
fn dev_v1_no_echo() { v1_body(160) }
#[kani::proof] #[kani::unwind(24)] #[kani::stub(crate::util::unix_timestamp, stub_ts)] #[kani::stub(std::str::from_utf8, stub_from_utf8)]
fn dev_v2_one_assert() { v2_body(160) }
#[kani::proof] #[kani::unwind(24)] #[kani::stub(crate::util::unix_timestamp, stub_ts)] #[kani::stub(std::str::from_utf8, stub_from_utf8)]
fn dev_v3_forget() { v3_body(160) }
