// C17 — Response::send, Content::Stream branch: the chunk framing of server-sent events.
// Contract (harness contract on the real async fn, the framing is an inline block of it):
//   for a stream yielding the messages m_1..m_n, the bytes written after the response head are a valid chunked body
//   (hex size CRLF data CRLF)* 0 CRLF CRLF whose de-chunked content, read by an event-stream parser written from the
//   WHATWG algorithm (lines end in CRLF, LF or CR; `data` fields joined by LF; dispatch on an empty line), is exactly
//   normalise(m_1)..normalise(m_n) in order (normalise: CRLF / CR -> LF), with no other field and no ignored line.
// Shapes (number of messages, message lengths) are concrete per harness, message bytes symbolic ASCII.
use super::*;
//@include spec/block_on.rs
use vsupport::block_on;
use std::pin::Pin;
use std::task::{Context, Poll};

fn stub_ts() -> u64 { 0 }

/// scripted producer: yields the prepared messages one per poll, then ends
struct Script { msgs: [Option<String>; 2], next: usize }
impl Stream for Script {
    type Item = String;
    fn poll_next(mut self: Pin<&mut Self>, _: &mut Context<'_>) -> Poll<Option<String>> {
        let i = self.next;
        if i < 2 { self.next = i + 1; Poll::Ready(self.msgs[i].take()) } else { Poll::Ready(None) }
    }
}

/// connection: records every write after the first one (the response head, whose length is kept)
struct Sink { head_len: usize, writes: usize, buf: [u8; 96], len: usize }
impl tokio::io::AsyncWrite for Sink {
    fn poll_write(mut self: Pin<&mut Self>, _: &mut Context<'_>, b: &[u8]) -> Poll<std::io::Result<usize>> {
        if self.writes == 0 { self.head_len = b.len(); }
        else {
            let mut i = 0;
            while i < b.len() { let at = self.len; self.buf[at] = b[i]; self.len = at + 1; i += 1; }
        }
        self.writes += 1;
        Poll::Ready(Ok(b.len()))
    }
    fn poll_flush(self: Pin<&mut Self>, _: &mut Context<'_>) -> Poll<std::io::Result<()>> { Poll::Ready(Ok(())) }
    fn poll_shutdown(self: Pin<&mut Self>, _: &mut Context<'_>) -> Poll<std::io::Result<()>> { Poll::Ready(Ok(())) }
}


#[kani::proof] #[kani::unwind(40)] #[kani::stub(crate::util::unix_timestamp, stub_ts)]
fn dev_d1_remove_then_drop() { let mut r = Response::new(Status::OK); r.headers.set().ContentLength(None); assert!(r.headers.size > 2); }
#[kani::proof] #[kani::unwind(40)] #[kani::stub(crate::util::unix_timestamp, stub_ts)]
fn dev_d2_remove_set_drop() { let mut r = Response::new(Status::OK); r.headers.set().ContentLength(None).ContentType("text/event-stream").CacheControl("no-cache, must-revalidate").TransferEncoding("chunked"); assert!(r.headers.size > 2); }
#[kani::proof] #[kani::unwind(40)] #[kani::stub(crate::util::unix_timestamp, stub_ts)]
fn dev_d3_send_none() { let r = Response::new(Status::OK); let mut sink = Sink { head_len: 0, writes: 0, buf: [0; 96], len: 0 }; let _ = block_on(r.send(&mut sink)); assert!(sink.writes == 1); }
#[kani::proof] #[kani::unwind(40)] #[kani::stub(crate::util::unix_timestamp, stub_ts)]
fn dev_d4_send_empty_stream() {
    let script = Script { msgs: [None, None], next: 0 };
    let mut res = Response::new(Status::OK);
    res.set_stream_raw(Box::pin(script));
    let mut sink = Sink { head_len: 0, writes: 0, buf: [0; 96], len: 0 };
    let _ = block_on(res.send(&mut sink));
    assert!(sink.writes == 2 && sink.len == 5);
}
#[kani::proof] #[kani::unwind(40)] #[kani::stub(crate::util::unix_timestamp, stub_ts)]
fn dev_d5_send_one_concrete() {
    let script = Script { msgs: [Some(String::from("ab")), None], next: 0 };
    let mut res = Response::new(Status::OK);
    res.set_stream_raw(Box::pin(script));
    let mut sink = Sink { head_len: 0, writes: 0, buf: [0; 96], len: 0 };
    let _ = block_on(res.send(&mut sink));
    assert!(sink.writes == 3);
}

#[kani::proof] #[kani::unwind(40)] #[kani::stub(crate::util::unix_timestamp, stub_ts)]
fn dev_d6_send_none_empty_headers() { let r = Response { status: Status::OK, headers: super::headers::__verif_devh::empty_headers(), content: Content::None }; let mut sink = Sink { head_len: 0, writes: 0, buf: [0; 96], len: 0 }; let _ = block_on(r.send(&mut sink)); assert!(sink.writes == 1); }
#[kani::proof] #[kani::unwind(40)] #[kani::stub(crate::util::unix_timestamp, stub_ts)]
fn dev_d7_write_only() { let r = Response::new(Status::OK); let mut buf = Vec::with_capacity(128); r.headers._write_to(&mut buf); assert!(buf.len() == r.headers.size); std::mem::forget(r); }
#[kani::proof] #[kani::unwind(40)] #[kani::stub(crate::util::unix_timestamp, stub_ts)]
fn dev_d8_send_stream_empty_headers() {
    let script = Script { msgs: [Some(String::from("ab")), None], next: 0 };
    let res = Response { status: Status::OK, headers: super::headers::__verif_devh::empty_headers(), content: Content::Stream(Box::pin(script)) };
    let mut sink = Sink { head_len: 0, writes: 0, buf: [0; 96], len: 0 };
    let _ = block_on(res.send(&mut sink));
    assert!(sink.writes == 3);
}
