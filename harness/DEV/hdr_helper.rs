use super::*;
pub(crate) fn empty_headers() -> Headers { Headers { standard: IndexMap::new(), custom: None, setcookie: None, size: 2 } }
