use super::*;
fn stub_ts() -> u64 { 0 }
#[kani::proof] #[kani::unwind(50)] #[kani::stub(crate::util::unix_timestamp, stub_ts)]
fn dev_m1_response_new_forget() { let r = Response::new(Status::OK); assert!(r.headers.size > 2); std::mem::forget(r); }
#[kani::proof] #[kani::unwind(50)] #[kani::stub(crate::util::unix_timestamp, stub_ts)]
fn dev_m2_response_new_drop() { let r = Response::new(Status::OK); assert!(r.headers.size > 2); }
#[kani::proof] #[kani::unwind(50)] #[kani::stub(crate::util::unix_timestamp, stub_ts)]
fn dev_m3_response_set_text() { let mut r = Response::new(Status::OK); r.set_text("hi"); assert!(r.headers.size > 2); std::mem::forget(r); }
#[kani::proof] #[kani::unwind(50)]
fn dev_m4_request_init_forget() { let r = crate::Request::init(std::net::IpAddr::V4(std::net::Ipv4Addr::new(127, 0, 0, 1))); std::mem::forget(r); }
#[kani::proof] #[kani::unwind(50)]
fn dev_m5_request_init_drop() { let r = crate::Request::init(std::net::IpAddr::V4(std::net::Ipv4Addr::new(127, 0, 0, 1))); }
#[kani::proof] #[kani::unwind(50)] #[kani::stub(crate::util::unix_timestamp, stub_ts)]
fn dev_m6_response_4sets() { let mut r = Response::new(Status::OK); r.headers.set().AccessControlAllowOrigin("*").Vary("Origin").AccessControlMaxAge("600").ContentType(None); assert!(r.headers.size > 2); std::mem::forget(r); }
