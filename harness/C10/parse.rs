// C10 (and the multipart part of C08) — serde_multipart::parse::Multipart::parse / next on TEMPLATES with symbolic holes
// (a minimal body with one part is ~70 bytes; the structure is concrete per harness, the content bytes are symbolic).
use super::*;
//@include spec/utf8.rs
//@include spec/from_utf8_stub.rs
fn eqb(a: &[u8], b: &[u8]) -> bool { if a.len() != b.len() { return false } let mut i = 0; while i < a.len() { if a[i] != b[i] { return false } i += 1; } true }
fn put(buf: &mut [u8; 128], at: &mut usize, s: &[u8]) { let mut i = 0; while i < s.len() { buf[*at] = s[i]; *at += 1; i += 1; } }

/// content of CONCRETE length k with symbolic bytes that do not contain the delimiter (no '-' keeps `--b` out; everything else is allowed:
/// CR, LF, NUL, high bytes)
fn any_content(k: usize) -> [u8; 3] {
    let c: [u8; 3] = kani::any();
    let mut i = 0;
    while i < k { kani::assume(c[i] != b'-'); i += 1; }
    c
}

/// early-exit paths: boundary line, empty header block, k content bytes, closing delimiter WITHOUT the CRLF a conforming encoder puts
/// before it -- a malformed body: must be refused (Err), never a panic or an out-of-bounds slice.   k = 0..=3
fn parse_malformed_body(k: usize) {
    let c = any_content(k);
    let buf: &'static mut [u8; 128] = Box::leak(Box::new([0u8; 128]));
    let mut n = 0;
    put(buf, &mut n, b"--b\r\n\r\n"); put(buf, &mut n, &c[..k]); put(buf, &mut n, b"--b--");
    let r = Multipart::parse(&buf[..n]);
    if k < 2 { assert!(r.is_err(), "multipart: a part whose content is not followed by CRLF before the delimiter is refused"); }
    kani::cover!(true);
}
//@chunks 4 c10_parse_malformed_total parse_malformed_body #[kani::proof] #[kani::unwind(140)] #[kani::stub(std::str::from_utf8, stub_from_utf8)]

/// one text field:  name "n", text = k symbolic bytes   =>  exactly that field, byte-exact (when the text is UTF-8; otherwise an error)
fn parse_text_field_body(k: usize) {
    let c = any_content(k);
    let buf: &'static mut [u8; 128] = Box::leak(Box::new([0u8; 128]));
    let mut n = 0;
    put(buf, &mut n, b"--b\r\nContent-Disposition: form-data; name=\"n\"\r\n\r\n"); put(buf, &mut n, &c[..k]); put(buf, &mut n, b"\r\n--b--\r\n");
    let r = Multipart::parse(&buf[..n]);
    if spec_utf8(&c[..k]) {
        match &r {
            Ok(m) => {
                assert!(m.0.len() == 1, "multipart: exactly the submitted field");
                assert!(matches!(&m.0[0], Part::Text { name, text } if eqb(name.as_bytes(), b"n") && eqb(text.as_bytes(), &c[..k])), "multipart: text field name and value byte-exact");
            }
            Err(_) => assert!(false, "multipart: a conforming body with one text field was refused"),
        }
    } else {
        assert!(r.is_err(), "multipart: a non-UTF-8 text field is an error, never an invalid string");
    }
    kani::cover!(r.is_ok());
}
//@chunks 4 c10_parse_text_field parse_text_field_body #[kani::proof] #[kani::unwind(140)] #[kani::stub(std::str::from_utf8, stub_from_utf8)]

/// one file:  name "n", filename "f", media type "a/b", content = k symbolic bytes (any values)  =>  byte-exact
fn parse_file_body(k: usize) {
    let c = any_content(k);
    let buf: &'static mut [u8; 128] = Box::leak(Box::new([0u8; 128]));
    let mut n = 0;
    put(buf, &mut n, b"--b\r\nContent-Disposition: form-data; name=\"n\"; filename=\"f\"\r\nContent-Type: a/b\r\n\r\n"); put(buf, &mut n, &c[..k]); put(buf, &mut n, b"\r\n--b--\r\n");
    let r = Multipart::parse(&buf[..n]);
    match r {
        Ok(mut m) => {
            assert!(m.0.len() == 1, "multipart: exactly the submitted file");
            assert!(matches!(&m.0[0], Part::File { name, file } if eqb(name.as_bytes(), b"n") && eqb(file.filename.as_bytes(), b"f") && eqb(file.mimetype.as_bytes(), b"a/b") && eqb(file.content, &c[..k])),
                "multipart: file name, filename, media type and content byte-exact (CR, LF, NUL, high bytes included)");
            let nx = m.next();
            assert!(matches!(&nx, Some(Next { name, item: TextOrFiles::Files(fs) }) if eqb(name.as_bytes(), b"n") && fs.len() == 1), "multipart: next() yields the file under its name");
            assert!(m.next().is_none(), "multipart: nothing else");
        }
        Err(_) => assert!(false, "multipart: a conforming body with one file was refused"),
    }
    kani::cover!(true);
}
//@chunks 4 c10_parse_file parse_file_body #[kani::proof] #[kani::unwind(140)] #[kani::stub(std::str::from_utf8, stub_from_utf8)]

// ---------------------------------------------------------------- decoded parts -> typed values (Multipart::next + DeserializeFilesOrField)
use serde::de::{SeqAccess, Deserializer as _, IntoDeserializer as _};
/// error texts are not under contract: formatting them (core::fmt::write, `{:?}` of str with its unicode tables) dominated these queries (measured)
fn stub_fmt_write(_: &mut dyn std::fmt::Write, _: std::fmt::Arguments<'_>) -> std::fmt::Result { Ok(()) }
fn one(b: &'static [u8; 4], i: usize) -> &'static [u8] { &b[i..i + 1] }
fn ascii(b: &'static [u8; 4], i: usize) -> &'static str { unsafe { std::str::from_utf8_unchecked(&b[i..i + 1]) } }
fn parts_of(n: usize, names: &'static [u8; 4], contents: &'static [u8; 4]) -> Multipart<'static> {
    // submission order: a text field `t`, then n files under the one name `f` (filename i = names[i], content i = contents[i])
    let mut parts: Vec<Part<'static>> = Vec::with_capacity(6);
    parts.push(Part::Text { name: "t", text: "x" });
    let mut i = 0;
    while i < n { parts.push(Part::File { name: "f", file: File { filename: ascii(names, i), mimetype: "a/b", content: one(contents, i) } }); i += 1; }
    Multipart(parts)
}
/// several files under one name are handed to the target type in SUBMISSION order, each with its own filename and byte-exact content; n = 1..=4
fn files_in_order_body(k: usize) {
    let n = k + 1;
    let names: &'static [u8; 4] = Box::leak(Box::new(kani::any()));
    let contents: &'static [u8; 4] = Box::leak(Box::new(kani::any()));
    kani::assume(names[0] < 128 && names[1] < 128 && names[2] < 128 && names[3] < 128);
    let mut m = parts_of(n, names, contents);
    let nx = m.next();
    assert!(matches!(&nx, Some(Next { name, item: TextOrFiles::Files(fs) }) if eqb(name.as_bytes(), b"f") && fs.len() == n), "multipart: all files submitted under one name are grouped under that name");
    let mut d = nx.unwrap().item.into_deserializer();
    let mut i = 0;
    while i < n {
        let f: Result<Option<File<'static>>, Error> = d.next_element_seed(std::marker::PhantomData::<File<'static>>);
        assert!(matches!(&f, Ok(Some(f)) if eqb(f.filename.as_bytes(), one(names, i)) && eqb(f.content, one(contents, i)) && eqb(f.mimetype.as_bytes(), b"a/b")),
            "multipart: the i-th decoded file is the i-th submitted file (filename, media type, content byte-exact)");
        i += 1;
    }
    let end: Result<Option<File<'static>>, Error> = d.next_element_seed(std::marker::PhantomData::<File<'static>>);
    assert!(matches!(end, Ok(None)), "multipart: no file beyond the submitted ones");
    let rest = m.next();
    assert!(matches!(&rest, Some(Next { name, item: TextOrFiles::Text(t) }) if eqb(name.as_bytes(), b"t") && eqb(t.as_bytes(), b"x")), "multipart: the text field is still delivered, as text");
    assert!(m.next().is_none(), "multipart: nothing else");
    kani::cover!(true);
}
//@chunks 4 c10_files_in_order files_in_order_body #[kani::proof] #[kani::unwind(12)] #[kani::stub(std::str::from_utf8, stub_from_utf8)] #[kani::stub(core::fmt::write, stub_fmt_write)]

/// shape fit: Option<File> is None for an empty file input, Some(the file) for exactly one, an error for several; a single File is an error for several;
/// a text field is never a file and a file never a text
fn shape_fit_body(n: usize) {
    let names: &'static [u8; 4] = Box::leak(Box::new(kani::any()));
    let contents: &'static [u8; 4] = Box::leak(Box::new(kani::any()));
    kani::assume(names[0] < 128 && names[1] < 128 && names[2] < 128 && names[3] < 128);
    let item = |n: usize| -> TextOrFiles<'static> {
        if n == 0 {
            // an empty file input: one part with empty filename and empty content
            let mut m = Multipart(vec![Part::File { name: "f", file: File { filename: "", mimetype: "application/octet-stream", content: b"" } }]);
            m.next().unwrap().item
        } else { let mut m = parts_of(n, names, contents); m.next().unwrap().item }
    };
    let opt: Result<Option<File<'static>>, Error> = serde::Deserialize::deserialize(item(n).into_deserializer());
    match n {
        0 => assert!(matches!(opt, Ok(None)), "multipart: an empty file input decodes to an absent value"),
        1 => assert!(matches!(&opt, Ok(Some(f)) if eqb(f.filename.as_bytes(), one(names, 0)) && eqb(f.content, one(contents, 0))), "multipart: exactly one file decodes to Some(that file)"),
        _ => assert!(opt.is_err(), "multipart: several files do not fit Option<File>: an error, never one of them"),
    }
    let single: Result<File<'static>, Error> = serde::Deserialize::deserialize(item(n).into_deserializer());
    match n {
        1 => assert!(matches!(&single, Ok(f) if eqb(f.filename.as_bytes(), one(names, 0)) && eqb(f.content, one(contents, 0))), "multipart: exactly one file decodes to that file"),
        _ => assert!(single.is_err(), "multipart: zero or several files do not fit a single File: an error, never a wrong value"),
    }
    let as_text: Result<&'static str, Error> = serde::Deserialize::deserialize(item(n).into_deserializer());
    assert!(as_text.is_err(), "multipart: a file part does not fit a text target");
    let as_file: Result<File<'static>, Error> = serde::Deserialize::deserialize(TextOrFiles::Text("x").into_deserializer());
    assert!(as_file.is_err(), "multipart: a text field does not fit a file target");
    kani::cover!(true);
}
//@chunks 3 c10_shape_fit shape_fit_body #[kani::proof] #[kani::unwind(12)] #[kani::stub(std::str::from_utf8, stub_from_utf8)] #[kani::stub(core::fmt::write, stub_fmt_write)]

/// the parser keeps submission order: a concrete conforming body with a text field and three files under one name (a symbolic execution of
/// the real parser on ONE input: the order of `parts` and grouping by next())
#[kani::proof]
#[kani::unwind(400)]
#[kani::stub(std::str::from_utf8, stub_from_utf8)]
fn c10_parse_three_files_template() {
    const BODY: &[u8] = b"--b\r\nContent-Disposition: form-data; name=\"t\"\r\n\r\nx\r\n--b\r\nContent-Disposition: form-data; name=\"f\"; filename=\"1\"\r\nContent-Type: a/b\r\n\r\nA\r\n--b\r\nContent-Disposition: form-data; name=\"f\"; filename=\"2\"\r\nContent-Type: a/b\r\n\r\nB\r\n--b\r\nContent-Disposition: form-data; name=\"f\"; filename=\"3\"\r\nContent-Type: a/b\r\n\r\nC\r\n--b--\r\n";
    let r = Multipart::parse(BODY);
    assert!(r.is_ok(), "multipart: the conforming body parses");
    let m = r.unwrap();
    assert!(m.0.len() == 4, "multipart: four parts");
    assert!(matches!(&m.0[0], Part::Text { name, text } if eqb(name.as_bytes(), b"t") && eqb(text.as_bytes(), b"x")), "multipart: parts are kept in submission order (text field first)");
    assert!(matches!(&m.0[1], Part::File { file, .. } if eqb(file.filename.as_bytes(), b"1") && eqb(file.content, b"A")), "multipart: first file second");
    assert!(matches!(&m.0[2], Part::File { file, .. } if eqb(file.filename.as_bytes(), b"2") && eqb(file.content, b"B")), "multipart: second file third");
    assert!(matches!(&m.0[3], Part::File { file, .. } if eqb(file.filename.as_bytes(), b"3") && eqb(file.content, b"C")), "multipart: third file last");
}

/// the parser on ENUMERATED CONCRETE bodies: a file part with content X followed by a text field: X byte-exact (content ending in CR, being CR / CRLF only,
/// containing CRLF or dashes), and the following part still found
fn parse_concrete_body(k: usize) {
    const CONTENTS: [&[u8]; 10] = [b"", b"a", b"a\r", b"\r", b"\r\n", b"a\r\nb", b"--", b"a--b", b"\n", b"\r\r"];
    let x = CONTENTS[k];
    let buf: &'static mut [u8; 256] = Box::leak(Box::new([0u8; 256]));
    let mut n = 0;
    let put = |buf: &mut [u8; 256], at: &mut usize, s: &[u8]| { let mut i = 0; while i < s.len() { buf[*at] = s[i]; *at += 1; i += 1; } };
    put(buf, &mut n, b"--b\r\nContent-Disposition: form-data; name=\"f\"; filename=\"g\"\r\nContent-Type: a/b\r\n\r\n"); put(buf, &mut n, x);
    put(buf, &mut n, b"\r\n--b\r\nContent-Disposition: form-data; name=\"t\"\r\n\r\nv\r\n--b--\r\n");
    let r = Multipart::parse(&buf[..n]);
    assert!(r.is_ok(), "multipart: a conforming two-part body parses");
    let m = r.unwrap();
    assert!(m.0.len() == 2, "multipart: both parts are found (no part swallowed by the previous one's content)");
    assert!(matches!(&m.0[0], Part::File { name, file } if eqb(name.as_bytes(), b"f") && eqb(file.filename.as_bytes(), b"g") && eqb(file.mimetype.as_bytes(), b"a/b") && eqb(file.content, x)),
        "multipart: the file content is byte-exact (CR, LF, dashes at the end included)");
    assert!(matches!(&m.0[1], Part::Text { name, text } if eqb(name.as_bytes(), b"t") && eqb(text.as_bytes(), b"v")), "multipart: the following text field is intact");
    std::mem::forget(m);
}
//@chunks 10 c10_parse_concrete parse_concrete_body #[kani::proof] #[kani::unwind(260)] #[kani::stub(std::str::from_utf8, stub_from_utf8)] #[kani::stub(core::fmt::write, stub_fmt_write)]
