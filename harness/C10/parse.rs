// C10 (and the multipart part of C08) — serde_multipart::parse::Multipart::parse / next on TEMPLATES with symbolic holes
// (a minimal body with one part is ~70 bytes; the structure is concrete per harness, the content bytes are symbolic).
use super::*;
//@include spec/utf8.rs
//@include spec/from_utf8_stub.rs
fn eqb(a: &[u8], b: &[u8]) -> bool { if a.len() != b.len() { return false } let mut i = 0; while i < a.len() { if a[i] != b[i] { return false } i += 1; } true }
fn put(buf: &mut [u8; 128], at: &mut usize, s: &[u8]) { let mut i = 0; while i < s.len() { buf[*at] = s[i]; *at += 1; i += 1; } }

/// content of CONCRETE length k with symbolic bytes that do not contain the delimiter (no '-' keeps `--b` out; everything else is allowed:
/// CR, LF, NUL, high bytes)
fn any_content(k: usize) -> [u8; 3] {
    let c: [u8; 3] = kani::any();
    let mut i = 0;
    while i < k { kani::assume(c[i] != b'-'); i += 1; }
    c
}

/// early-exit paths: boundary line, empty header block, k content bytes, closing delimiter WITHOUT the CRLF a conforming encoder puts
/// before it -- a malformed body: must be refused (Err), never a panic or an out-of-bounds slice.   k = 0..=3
fn parse_malformed_body(k: usize) {
    let c = any_content(k);
    let buf: &'static mut [u8; 128] = Box::leak(Box::new([0u8; 128]));
    let mut n = 0;
    put(buf, &mut n, b"--b\r\n\r\n"); put(buf, &mut n, &c[..k]); put(buf, &mut n, b"--b--");
    let r = Multipart::parse(&buf[..n]);
    if k < 2 { assert!(r.is_err(), "multipart: a part whose content is not followed by CRLF before the delimiter is refused"); }
    kani::cover!(true);
}
//@chunks 4 c10_parse_malformed_total parse_malformed_body #[kani::proof] #[kani::unwind(140)] #[kani::stub(std::str::from_utf8, stub_from_utf8)]

/// one text field:  name "n", text = k symbolic bytes   =>  exactly that field, byte-exact (when the text is UTF-8; otherwise an error)
fn parse_text_field_body(k: usize) {
    let c = any_content(k);
    let buf: &'static mut [u8; 128] = Box::leak(Box::new([0u8; 128]));
    let mut n = 0;
    put(buf, &mut n, b"--b\r\nContent-Disposition: form-data; name=\"n\"\r\n\r\n"); put(buf, &mut n, &c[..k]); put(buf, &mut n, b"\r\n--b--\r\n");
    let r = Multipart::parse(&buf[..n]);
    if spec_utf8(&c[..k]) {
        match &r {
            Ok(m) => {
                assert!(m.0.len() == 1, "multipart: exactly the submitted field");
                assert!(matches!(&m.0[0], Part::Text { name, text } if eqb(name.as_bytes(), b"n") && eqb(text.as_bytes(), &c[..k])), "multipart: text field name and value byte-exact");
            }
            Err(_) => assert!(false, "multipart: a conforming body with one text field was refused"),
        }
    } else {
        assert!(r.is_err(), "multipart: a non-UTF-8 text field is an error, never an invalid string");
    }
    kani::cover!(r.is_ok());
}
//@chunks 4 c10_parse_text_field parse_text_field_body #[kani::proof] #[kani::unwind(140)] #[kani::stub(std::str::from_utf8, stub_from_utf8)]

/// one file:  name "n", filename "f", media type "a/b", content = k symbolic bytes (any values)  =>  byte-exact
fn parse_file_body(k: usize) {
    let c = any_content(k);
    let buf: &'static mut [u8; 128] = Box::leak(Box::new([0u8; 128]));
    let mut n = 0;
    put(buf, &mut n, b"--b\r\nContent-Disposition: form-data; name=\"n\"; filename=\"f\"\r\nContent-Type: a/b\r\n\r\n"); put(buf, &mut n, &c[..k]); put(buf, &mut n, b"\r\n--b--\r\n");
    let r = Multipart::parse(&buf[..n]);
    match r {
        Ok(mut m) => {
            assert!(m.0.len() == 1, "multipart: exactly the submitted file");
            assert!(matches!(&m.0[0], Part::File { name, file } if eqb(name.as_bytes(), b"n") && eqb(file.filename.as_bytes(), b"f") && eqb(file.mimetype.as_bytes(), b"a/b") && eqb(file.content, &c[..k])),
                "multipart: file name, filename, media type and content byte-exact (CR, LF, NUL, high bytes included)");
            let nx = m.next();
            assert!(matches!(&nx, Some(Next { name, item: TextOrFiles::Files(fs) }) if eqb(name.as_bytes(), b"n") && fs.len() == 1), "multipart: next() yields the file under its name");
            assert!(m.next().is_none(), "multipart: nothing else");
        }
        Err(_) => assert!(false, "multipart: a conforming body with one file was refused"),
    }
    kani::cover!(true);
}
//@chunks 4 c10_parse_file parse_file_body #[kani::proof] #[kani::unwind(140)] #[kani::stub(std::str::from_utf8, stub_from_utf8)]
