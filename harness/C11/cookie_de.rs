// C11 — serde_cookie::de: a Cookie header carrying a jar decodes, pair by pair, to the same names and values
// (MapAccess steps of the real deserializer driven directly: serde-derived struct glue does not get through CBMC, DESIGN §2).
use super::*;
use serde::de::MapAccess;
fn stub_format(_: std::fmt::Arguments<'_>) -> String { String::new() }
//@include spec/utf8.rs
//@include spec/percent.rs
//@include spec/from_utf8_stub.rs

/// RFC 6265 token character (cookie-name alphabet)
fn is_token(b: u8) -> bool {
    b > 32 && b < 127 && !matches!(b, b'(' | b')' | b'<' | b'>' | b'@' | b',' | b';' | b':' | b'\\' | b'"' | b'/' | b'[' | b']' | b'?' | b'=' | b'{' | b'}')
}
/// RFC 6265 cookie-octet, minus '%' (escapes have their own template)
fn is_plain_octet(b: u8) -> bool { b > 32 && b < 127 && !matches!(b, b'"' | b',' | b';' | b'\\' | b'%') }
fn eqb(a: &[u8], b: &[u8]) -> bool { if a.len() != b.len() { return false } let mut i = 0; while i < a.len() { if a[i] != b[i] { return false } i += 1; } true }

/// jar `N=VV; M=W` (shape 0), `N="VV"; M=W` (shape 1: double-quoted value), `N=VV` (shape 2: single cookie)
fn jar_body(shape: usize) {
    let n: u8 = kani::any(); let m: u8 = kani::any();
    let v: [u8; 2] = kani::any(); let w: u8 = kani::any();
    kani::assume(is_token(n) && is_token(m) && is_plain_octet(v[0]) && is_plain_octet(v[1]) && is_plain_octet(w));
    let raw: &'static [u8] = match shape {
        0 => Box::leak(Box::new([n, b'=', v[0], v[1], b';', b' ', m, b'=', w])),
        1 => Box::leak(Box::new([n, b'=', b'"', v[0], v[1], b'"', b';', b' ', m, b'=', w])),
        _ => Box::leak(Box::new([n, b'=', v[0], v[1]])),
    };
    let mut de = CookieDeserializer::new(unsafe { std::str::from_utf8_unchecked(raw) });
    let mut acc = AmpersandSeparated::new(&mut de);
    let k1 = acc.next_key_seed(std::marker::PhantomData::<&str>);
    assert!(matches!(k1, Ok(Some(k)) if eqb(k.as_bytes(), &[n])), "cookie jar: first name decodes to the name sent");
    let v1 = acc.next_value_seed(std::marker::PhantomData::<String>);
    assert!(matches!(&v1, Ok(s) if eqb(s.as_bytes(), &v)), "cookie jar: first value decodes to the value sent (quotes stripped when double-quoted)");
    if shape < 2 {
        let k2 = acc.next_key_seed(std::marker::PhantomData::<&str>);
        assert!(matches!(k2, Ok(Some(k)) if eqb(k.as_bytes(), &[m])), "cookie jar: second name");
        let v2 = acc.next_value_seed(std::marker::PhantomData::<&str>);
        assert!(matches!(v2, Ok(s) if eqb(s.as_bytes(), &[w])), "cookie jar: second value");
    }
    let end = acc.next_key_seed(std::marker::PhantomData::<&str>);
    assert!(matches!(end, Ok(None)), "cookie jar: nothing after the last cookie");
    kani::cover!(true);
}
//@chunks 3 c11_cookie_jar_roundtrip jar_body #[kani::proof] #[kani::unwind(14)] #[kani::stub(alloc::fmt::format, stub_format)] #[kani::stub(crate::percent_encoding::percent_decode, spec_percent_decode)] #[kani::stub(crate::percent_encoding::percent_decode_utf8, spec_percent_decode_utf8)] #[kani::stub(std::str::from_utf8, stub_from_utf8)]

/// percent-encoded value `N=%XY` with XY the hex of an ASCII byte: decodes to that byte; a non-UTF-8 escape is an error
#[kani::proof]
#[kani::unwind(14)]
#[kani::stub(alloc::fmt::format, stub_format)]
#[kani::stub(crate::percent_encoding::percent_decode, spec_percent_decode)]
#[kani::stub(crate::percent_encoding::percent_decode_utf8, spec_percent_decode_utf8)]
#[kani::stub(std::str::from_utf8, stub_from_utf8)]
fn c11_cookie_percent_value() {
    const HEX: &[u8; 16] = b"0123456789ABCDEF";
    let byte: u8 = kani::any();
    let raw: &'static [u8] = Box::leak(Box::new([b'n', b'=', b'%', HEX[(byte >> 4) as usize], HEX[(byte & 15) as usize]]));
    let mut de = CookieDeserializer::new(unsafe { std::str::from_utf8_unchecked(raw) });
    let mut acc = AmpersandSeparated::new(&mut de);
    let k = acc.next_key_seed(std::marker::PhantomData::<&str>);
    assert!(matches!(k, Ok(Some("n"))), "cookie: name");
    let v = acc.next_value_seed(std::marker::PhantomData::<String>);
    if byte < 128 { assert!(matches!(&v, Ok(s) if s.len() == 1 && s.as_bytes()[0] == byte), "cookie: a percent-encoded ASCII byte decodes to that byte"); }
    else { assert!(v.is_err(), "cookie: an escape that does not decode to UTF-8 is an error, never an invalid string"); }
}
