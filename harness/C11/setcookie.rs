// C11 (response side) — header::setcookie: the line emitted by SetCookieBuilder::build parses back, through SetCookie::from_raw,
// to the same cookie value and the same directives, and is a single RFC 6265 set-cookie-string:
//   cookie-pair *( "; " cookie-av ), the value made of cookie-octets only (no CTL, space, DQUOTE, comma, semicolon, backslash).
// Shapes (value length, which directives) are concrete per harness; the value bytes are symbolic.
use super::*;
fn stub_format(_: std::fmt::Arguments<'_>) -> String { String::new() }
//@include spec/utf8.rs
//@include spec/percent.rs
//@include spec/from_utf8_stub.rs

/// ASSUMED CONTRACT of percent_encoding::percent_encode(.., NON_ALPHANUMERIC): every byte that is not an ASCII letter or digit becomes %XY (upper-case hex)
fn spec_percent_encode(input: &str) -> std::borrow::Cow<'_, str> {
    const HEX: &[u8; 16] = b"0123456789ABCDEF";
    let b = input.as_bytes();
    assert!(b.len() <= 8, "harness bound of the percent-encoding stub");
    let mut out = [0u8; 24];
    let (mut n, mut i, mut any) = (0usize, 0usize, false);
    while i < b.len() {
        let c = b[i];
        if (c >= b'0' && c <= b'9') || (c >= b'a' && c <= b'z') || (c >= b'A' && c <= b'Z') { out[n] = c; n += 1; }
        else { out[n] = b'%'; out[n + 1] = HEX[(c >> 4) as usize]; out[n + 2] = HEX[(c & 15) as usize]; n += 3; any = true; }
        i += 1;
    }
    if !any { return std::borrow::Cow::Borrowed(input) }
    let mut v = Vec::from(out);
    unsafe { v.set_len(n) };
    std::borrow::Cow::Owned(unsafe { String::from_utf8_unchecked(v) })
}
fn eqb(a: &[u8], b: &[u8]) -> bool { if a.len() != b.len() { return false } let mut i = 0; while i < a.len() { if a[i] != b[i] { return false } i += 1; } true }
fn is_cookie_octet(b: u8) -> bool { b == 0x21 || (b >= 0x23 && b <= 0x2B) || (b >= 0x2D && b <= 0x3A) || (b >= 0x3C && b <= 0x5B) || (b >= 0x5D && b <= 0x7E) }

/// shape k: value length (k % 3), directive set (k / 3):
///   0 none | 1 Path + HttpOnly + SameSite=Lax | 2 Max-Age + Secure | 3 Domain + Path + Secure + HttpOnly + SameSite=Strict | 4 Expires + SameSite=None
fn setcookie_body(k: usize) {
    let vlen = k % 3;
    let dset = k / 3;
    let raw: [u8; 2] = kani::any();
    kani::assume(spec_utf8(&raw[..vlen]));
    let value: String = unsafe { String::from_utf8_unchecked(Vec::from(&raw[..vlen])) };
    let mut b = SetCookieBuilder::new("sid", value);
    b = match dset {
        0 => b,
        1 => b.Path("/").HttpOnly().SameSiteLax(),
        2 => b.MaxAge(3600).Secure(),
        3 => b.Domain("a.example").Path("/x").Secure().HttpOnly().SameSiteStrict(),
        _ => b.Expires("Wed, 21 Oct 2015 07:28:00 GMT").SameSiteNone(),
    };
    let line: &'static str = Box::leak(b.build().into_boxed_str());
    let lb = line.as_bytes();
    // a single line; cookie-pair first; the value consists of cookie-octets only
    assert!(lb.len() >= 4 && lb[0] == b's' && lb[1] == b'i' && lb[2] == b'd' && lb[3] == b'=', "Set-Cookie: the line starts with the cookie-pair `name=`");
    let mut i = 4;
    while i < lb.len() && lb[i] != b';' { assert!(is_cookie_octet(lb[i]), "Set-Cookie: the emitted value consists of RFC 6265 cookie-octets only"); i += 1; }
    let mut j = 0; while j < lb.len() { assert!(lb[j] != b'\r' && lb[j] != b'\n', "Set-Cookie: a single line"); j += 1; }
    // parses back to the same cookie value and directives
    let parsed = SetCookie::from_raw(line);
    assert!(parsed.is_ok(), "Set-Cookie: the emitted line parses");
    let p = parsed.unwrap();
    let (pn, pv) = p.Cookie();
    assert!(eqb(pn.as_bytes(), b"sid"), "Set-Cookie: name round-trips");
    assert!(eqb(pv.as_bytes(), &raw[..vlen]), "Set-Cookie: the value parses back to the value given to the builder");
    let want = |path: Option<&[u8]>, domain: Option<&[u8]>, maxage: Option<u64>, secure: bool, httponly: bool, samesite: Option<&[u8]>, expires: bool| {
        let okp = match (p.Path(), path) { (None, None) => true, (Some(g), Some(w)) => eqb(g.as_bytes(), w), _ => false };
        let okd = match (p.Domain(), domain) { (None, None) => true, (Some(g), Some(w)) => eqb(g.as_bytes(), w), _ => false };
        let oks = match (p.SameSite(), samesite) { (None, None) => true, (Some(g), Some(w)) => eqb(g.as_bytes(), w), _ => false };
        okp && okd && oks && p.MaxAge() == maxage && (p.Secure() == Some(true)) == secure && (p.HttpOnly() == Some(true)) == httponly && p.Expires().is_some() == expires
    };
    let ok = match dset {
        0 => want(None, None, None, false, false, None, false),
        1 => want(Some(b"/"), None, None, false, true, Some(b"Lax"), false),
        2 => want(None, None, Some(3600), true, false, None, false),
        3 => want(Some(b"/x"), Some(b"a.example"), None, true, true, Some(b"Strict"), false),
        _ => want(None, None, None, false, false, Some(b"None"), true) && eqb(p.Expires().unwrap().as_bytes(), b"Wed, 21 Oct 2015 07:28:00 GMT"),
    };
    assert!(ok, "Set-Cookie: every directive given to the builder parses back, and no other directive appears");
    kani::cover!(true);
}
//@chunks 15 c11_setcookie_roundtrip setcookie_body #[kani::proof] #[kani::unwind(40)] #[kani::stub(alloc::fmt::format, stub_format)] #[kani::stub(ohkami_lib::percent_encode, spec_percent_encode)] #[kani::stub(ohkami_lib::percent_decode_utf8, spec_percent_decode_utf8)] #[kani::stub(std::str::from_utf8, stub_from_utf8)]

/// the same round trip on ENUMERATED CONCRETE values (the symbolic shapes above need more than 20 min each under CBMC and are not registered):
/// plain, a literal percent escape, space + semicolon, double quote, non-ASCII, base64 padding, empty
fn setcookie_concrete_body(k: usize) {
    const VALUES: [&str; 7] = ["abc123", "50%2Foff", "a b;c", "\"q\"", "\u{e9}", "YWJj==", ""];
    let value = VALUES[k];
    let b = SetCookieBuilder::new("sid", value).Path("/").HttpOnly().SameSiteLax();
    let line: &'static str = Box::leak(b.build().into_boxed_str());
    let lb = line.as_bytes();
    assert!(lb.len() >= 4 && lb[0] == b's' && lb[1] == b'i' && lb[2] == b'd' && lb[3] == b'=', "Set-Cookie: the line starts with the cookie-pair `name=`");
    let mut i = 4;
    while i < lb.len() && lb[i] != b';' { assert!(is_cookie_octet(lb[i]), "Set-Cookie: the emitted value consists of RFC 6265 cookie-octets only"); i += 1; }
    let parsed = SetCookie::from_raw(line);
    assert!(parsed.is_ok(), "Set-Cookie: the emitted line parses");
    let p = parsed.unwrap();
    let (pn, pv) = p.Cookie();
    assert!(eqb(pn.as_bytes(), b"sid"), "Set-Cookie: name round-trips");
    assert!(eqb(pv.as_bytes(), value.as_bytes()), "Set-Cookie: the value parses back to the value given to the builder");
    assert!(matches!(p.Path(), Some("/")) && p.HttpOnly() == Some(true) && matches!(p.SameSite(), Some("Lax")) && p.Secure().is_none() && p.MaxAge().is_none() && p.Domain().is_none() && p.Expires().is_none(),
        "Set-Cookie: every directive given to the builder parses back, and no other directive appears");
    std::mem::forget(p);
}
//@chunks 7 c11_setcookie_concrete setcookie_concrete_body #[kani::proof] #[kani::unwind(48)] #[kani::stub(alloc::fmt::format, stub_format)] #[kani::stub(ohkami_lib::percent_encode, spec_percent_encode)] #[kani::stub(ohkami_lib::percent_decode_utf8, spec_percent_decode_utf8)] #[kani::stub(std::str::from_utf8, stub_from_utf8)]
