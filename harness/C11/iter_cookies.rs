// C11 — util::iter_cookies (the request's cookie iterator, Request.headers.cookies()): ENUMERATED CONCRETE Cookie header values
use super::*;
fn eqb(a: &[u8], b: &[u8]) -> bool { if a.len() != b.len() { return false } let mut i = 0; while i < a.len() { if a[i] != b[i] { return false } i += 1; } true }
fn probe(raw: &'static str, want: &[(&str, &str)]) {
    let mut it = iter_cookies(raw);
    let mut i = 0;
    while i < want.len() {
        let got = it.next();
        assert!(matches!(got, Some((n, v)) if eqb(n.as_bytes(), want[i].0.as_bytes()) && eqb(v.as_bytes(), want[i].1.as_bytes())), "cookie iterator: the i-th cookie has the name and value that were sent");
        i += 1;
    }
    assert!(it.next().is_none(), "cookie iterator: nothing after the last cookie");
}
/// plain jars (one short jar per harness: str::split(&str) builds a TwoWaySearcher, which CBMC executes slowly even on concrete input)
#[kani::proof]
#[kani::unwind(40)]
fn c11_iter_cookies_plain() {
    probe("a=1; bc=23", &[("a", "1"), ("bc", "23")]);
}
#[kani::proof]
#[kani::unwind(40)]
fn c11_iter_cookies_single_and_empty() {
    probe("a=1", &[("a", "1")]);
    probe("e=; f=2", &[("e", ""), ("f", "2")]);
}
/// `=` is a cookie-octet: a value containing it (base64 padding) is the same cookie
#[kani::proof]
#[kani::unwind(40)]
fn c11_iter_cookies_value_with_eq() {
    probe("sid=YWJj==; x=1", &[("sid", "YWJj=="), ("x", "1")]);
}
/// percent-encoded and double-quoted values denote the decoded / unquoted value (RFC 6265 as the property states it)
#[kani::proof]
#[kani::unwind(40)]
fn c11_iter_cookies_encoded_values() {
    probe("q=\"v\"; p=a%20b", &[("q", "v"), ("p", "a b")]);
}
