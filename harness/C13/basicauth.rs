// C13 — fang::builtin::basicauth: BasicAuth::fore / [BasicAuth; 2]::fore admit exactly the configured credentials.
// base64 decoding is an ASSUMED CONTRACT (stub returning an arbitrary result of an enumerated shape): the decision logic around it
// (scheme prefix, first-colon split, exact pair match, 401 + challenge otherwise) is what is under contract here.
use super::*;
//@include spec/block_on.rs
use vsupport::block_on;
//@include spec/utf8.rs
//@include spec/from_utf8_stub.rs
use ohkami_lib::{CowSlice, Slice};

fn stub_ts() -> u64 { 0 }

static mut DECODED_LEN: usize = 0;
/// assumed contract of util::base64_decode_utf8: Err, or Ok(some UTF-8 string) -- here any ASCII string of the harness's length
fn stub_b64() -> Result<String, base64::DecodeError> {
    if kani::any() { return Err(base64::DecodeError::InvalidPadding) }
    let n = unsafe { DECODED_LEN };
    let b: [u8; 4] = kani::any();
    kani::assume(b[0] < 128 && b[1] < 128 && b[2] < 128 && b[3] < 128);
    let mut v = Vec::from(b);
    unsafe { v.set_len(n) };
    Ok(unsafe { String::from_utf8_unchecked(v) })
}

fn sym_str(len: usize) -> &'static str {
    let b: &'static mut [u8; 2] = Box::leak(Box::new(kani::any()));
    kani::assume(b[0] < 128 && b[1] < 128);
    unsafe { std::str::from_utf8_unchecked(&b[..len]) }
}
fn eq(a: &[u8], b: &[u8]) -> bool { if a.len() != b.len() { return false } let mut i = 0; while i < a.len() { if a[i] != b[i] { return false } i += 1; } true }
/// reference decision: credential = user ':' pass split at the FIRST colon, equal to the configured pair exactly
fn spec_admits(cred: &[u8], user: &[u8], pass: &[u8]) -> bool {
    let mut c = 0;
    while c < cred.len() && cred[c] != b':' { c += 1; }
    if c == cred.len() { return false }
    eq(&cred[..c], user) && eq(&cred[c + 1..], pass)
}

static mut LAST_CRED: [u8; 4] = [0; 4];
static mut LAST_OK: bool = false;
fn stub_b64_recording<T: AsRef<[u8]>>(_input: T) -> Result<String, base64::DecodeError> {
    let r = stub_b64();
    unsafe {
        match &r { Ok(s) => { LAST_OK = true; let mut i = 0; while i < s.len() { LAST_CRED[i] = s.as_bytes()[i]; i += 1; } } Err(_) => LAST_OK = false }
    }
    r
}

/// shape -> (header kind 0 absent / 1 "Basic xx" / 2 "Bearer x" / 3 "basic xx", decoded length 0..=4, (user len, pass len) in {(1,1),(1,2),(2,1),(0,1)})
fn basicauth_body(shape: usize) {
    let hk = shape % 4;
    let dl = (shape / 4) % 5;
    let (ul, pl) = match shape / 20 { 0 => (1, 1), 1 => (1, 2), 2 => (2, 1), _ => (0, 1) };
    unsafe { DECODED_LEN = dl };
    let mut req = Request::init(std::net::IpAddr::V4(std::net::Ipv4Addr::new(127, 0, 0, 1)));
    match hk {
        1 => req.headers.append(crate::request::RequestHeader::Authorization, CowSlice::Ref(Slice::from_bytes(b"Basic QQ=="))),
        2 => req.headers.append(crate::request::RequestHeader::Authorization, CowSlice::Ref(Slice::from_bytes(b"Bearer QQ=="))),
        3 => req.headers.append(crate::request::RequestHeader::Authorization, CowSlice::Ref(Slice::from_bytes(b"basic QQ=="))),
        _ => {}
    }
    let (user, pass) = (sym_str(ul), sym_str(pl));
    let single: bool = kani::any();
    let r = if single {
        block_on(BasicAuth { username: user, password: pass }.fore(&mut req))
    } else {
        // two configured pairs, the second one being the symbolic pair; the first a fixed other pair
        block_on([BasicAuth { username: "x", password: "y" }, BasicAuth { username: user, password: pass }].fore(&mut req))
    };
    let cred = unsafe { &LAST_CRED[..dl] };
    let decoded_ok = hk == 1 && unsafe { LAST_OK };
    let want = decoded_ok && (spec_admits(cred, user.as_bytes(), pass.as_bytes()) || (!single && spec_admits(cred, b"x", b"y")));
    match r {
        Ok(()) => assert!(want, "BasicAuth: admitted although the header is not `Basic ` + base64(user:password) of a configured pair"),
        Err(res) => {
            assert!(!want, "BasicAuth: a correct credential of a configured pair was refused");
            assert!(res.status == Status::Unauthorized, "BasicAuth: refusal is 401");
            assert!(res.headers.WWWAuthenticate().map(|v| v.as_bytes()[0] == b'B' && v.as_bytes()[4] == b'c') == Some(true), "BasicAuth: refusal carries a `WWW-Authenticate: Basic ...` challenge");
        }
    }
    kani::cover!(want || hk != 1 || dl != ul + pl + 1);
}
//@chunks 80 c13_basicauth_contract basicauth_body #[kani::proof] #[kani::unwind(16)] #[kani::stub(crate::util::unix_timestamp, stub_ts)] #[kani::stub(crate::util::base64_decode_utf8, stub_b64_recording)] #[kani::stub(std::str::from_utf8, stub_from_utf8)]
