// C13 — fang::builtin::basicauth: BasicAuth::fore / [BasicAuth; 2]::fore admit exactly the configured credentials.
// base64 decoding is an ASSUMED CONTRACT (stub returning an arbitrary result of an enumerated shape): the decision logic around it
// (scheme prefix, first-colon split, exact pair match, 401 + challenge otherwise) is what is under contract here.
use super::*;
//@include spec/block_on.rs
use vsupport::block_on;
//@include spec/utf8.rs
//@include spec/from_utf8_stub.rs
use ohkami_lib::{CowSlice, Slice};

fn stub_ts() -> u64 { 0 }

static mut DECODED_LEN: usize = 0;
/// assumed contract of util::base64_decode_utf8: Err, or Ok(some UTF-8 string) -- here any ASCII string of the harness's length
fn stub_b64() -> Result<String, base64::DecodeError> {
    if unsafe { DECODE_FAILS } { return Err(base64::DecodeError::InvalidPadding) }
    let n = unsafe { DECODED_LEN };
    let b: [u8; 4] = kani::any();
    kani::assume(b[0] < 128 && b[1] < 128 && b[2] < 128 && b[3] < 128);
    let mut v = Vec::from(b);
    unsafe { v.set_len(n) };
    Ok(unsafe { String::from_utf8_unchecked(v) })
}

fn sym_str(len: usize) -> &'static str {
    let b: &'static mut [u8; 2] = Box::leak(Box::new(kani::any()));
    kani::assume(b[0] < 128 && b[1] < 128);
    unsafe { std::str::from_utf8_unchecked(&b[..len]) }
}
fn eq(a: &[u8], b: &[u8]) -> bool { if a.len() != b.len() { return false } let mut i = 0; while i < a.len() { if a[i] != b[i] { return false } i += 1; } true }
/// reference decision: credential = user ':' pass split at the FIRST colon, equal to the configured pair exactly
fn spec_admits(cred: &[u8], user: &[u8], pass: &[u8]) -> bool {
    let mut c = 0;
    while c < cred.len() && cred[c] != b':' { c += 1; }
    if c == cred.len() { return false }
    eq(&cred[..c], user) && eq(&cred[c + 1..], pass)
}

static mut LAST_CRED: [u8; 4] = [0; 4];
static mut LAST_OK: bool = false;
fn stub_b64_recording<T: AsRef<[u8]>>(_input: T) -> Result<String, base64::DecodeError> {
    let r = stub_b64();
    unsafe {
        match &r { Ok(s) => { LAST_OK = true; let mut i = 0; while i < s.len() { LAST_CRED[i] = s.as_bytes()[i]; i += 1; } } Err(_) => LAST_OK = false }
    }
    r
}

static mut DECODE_FAILS: bool = false;
/// shape k -> (header kind 0 absent / 1 "Basic xx" / 2 "Bearer x" / 3 "basic xx", decode fails?, decoded length 0..=4, (user len, pass len), single fang or array of 2)
/// everything that changes the SHAPE of the execution is concrete per harness; only the decoded bytes and the configured strings are symbolic
const FORE_SHAPES: [(usize, bool, usize, usize, usize, bool); 20] = [
    (0, false, 0, 1, 1, true), (2, false, 3, 1, 1, true), (3, false, 3, 1, 1, true), (1, true, 0, 1, 1, true),
    (1, false, 0, 1, 1, true), (1, false, 1, 1, 1, true), (1, false, 2, 1, 1, true), (1, false, 3, 1, 1, true), (1, false, 4, 1, 1, true),
    (1, false, 3, 1, 2, true), (1, false, 4, 1, 2, true), (1, false, 4, 2, 1, true), (1, false, 2, 0, 1, true), (1, false, 3, 0, 1, true),
    (1, false, 3, 1, 1, false), (1, false, 4, 1, 2, false), (0, false, 0, 1, 1, false), (1, true, 0, 1, 1, false), (1, false, 2, 1, 1, false), (2, false, 3, 1, 1, false),
];
fn basicauth_body(k: usize) {
    let (hk, fails, dl, ul, pl, single) = FORE_SHAPES[k];
    unsafe { DECODED_LEN = dl; DECODE_FAILS = fails; }
    let mut req = Request::init(std::net::IpAddr::V4(std::net::Ipv4Addr::new(127, 0, 0, 1)));
    match hk {
        1 => req.headers.append(crate::request::RequestHeader::Authorization, CowSlice::Ref(Slice::from_bytes(b"Basic QQ=="))),
        2 => req.headers.append(crate::request::RequestHeader::Authorization, CowSlice::Ref(Slice::from_bytes(b"Bearer QQ=="))),
        3 => req.headers.append(crate::request::RequestHeader::Authorization, CowSlice::Ref(Slice::from_bytes(b"basic QQ=="))),
        _ => {}
    }
    let (user, pass) = (sym_str(ul), sym_str(pl));
    let r = if single {
        block_on(BasicAuth { username: user, password: pass }.fore(&mut req))
    } else {
        // two configured pairs, the second one being the symbolic pair; the first a fixed other pair
        block_on([BasicAuth { username: "x", password: "y" }, BasicAuth { username: user, password: pass }].fore(&mut req))
    };
    let cred = unsafe { &LAST_CRED[..dl] };
    let decoded_ok = hk == 1 && !fails;
    let want = decoded_ok && (spec_admits(cred, user.as_bytes(), pass.as_bytes()) || (!single && spec_admits(cred, b"x", b"y")));
    match r {
        Ok(()) => assert!(want, "BasicAuth: admitted although the header is not `Basic ` + base64(user:password) of a configured pair"),
        Err(res) => {
            assert!(!want, "BasicAuth: a correct credential of a configured pair was refused");
            assert!(res.status == Status::Unauthorized, "BasicAuth: refusal is 401");
            assert!(res.headers.WWWAuthenticate().map(|v| v.as_bytes()[0] == b'B' && v.as_bytes()[4] == b'c') == Some(true), "BasicAuth: refusal carries a `WWW-Authenticate: Basic ...` challenge");
            std::mem::forget(res);
        }
    }
    std::mem::forget(req);
    kani::cover!(want || hk != 1 || fails || dl != ul + pl + 1);
}
//@chunks 20 c13_basicauth_contract basicauth_body #[kani::proof] #[kani::unwind(16)] #[kani::stub(crate::util::unix_timestamp, stub_ts)] #[kani::stub(crate::util::base64_decode_utf8, stub_b64_recording)] #[kani::stub(std::str::from_utf8, stub_from_utf8)]

/// BasicAuth::matches: true iff BOTH strings equal the configured ones exactly (not a prefix, not a suffix, not case-folded, not swapped)
fn sym_bytes3(len: usize) -> &'static str {
    let b: &'static mut [u8; 3] = Box::leak(Box::new(kani::any()));
    kani::assume(b[0] < 128 && b[1] < 128 && b[2] < 128);
    unsafe { std::str::from_utf8_unchecked(&b[..len]) }
}
/// shape k -> (configured user len, configured pass len, given user len, given pass len), each 0..=3 except configured >= 1
fn matches_body(k: usize) {
    const L: [(usize, usize, usize, usize); 12] = [
        (1, 1, 1, 1), (2, 2, 2, 2), (3, 1, 3, 1), (1, 3, 1, 3),     // equal lengths: decided by the bytes
        (2, 2, 3, 2), (2, 2, 2, 3), (2, 2, 1, 2), (2, 2, 2, 1),     // one field longer / shorter: never admitted
        (1, 2, 2, 1), (2, 1, 1, 2),                                  // lengths swapped
        (1, 1, 0, 1), (1, 1, 1, 0),                                  // an empty given field
    ];
    let (cu, cp, gu, gp) = L[k];
    let (user, pass, u, p) = (sym_bytes3(cu), sym_bytes3(cp), sym_bytes3(gu), sym_bytes3(gp));
    let got = BasicAuth { username: user, password: pass }.matches(u, p);
    let want = eq(user.as_bytes(), u.as_bytes()) && eq(pass.as_bytes(), p.as_bytes());
    assert!(got == want, "BasicAuth::matches: true iff username and password both equal the configured strings exactly");
    kani::cover!(got || cu != gu || cp != gp);
}
//@chunks 12 c13_matches_contract matches_body #[kani::proof] #[kani::unwind(8)]
