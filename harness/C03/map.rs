// C03 — representation invariant + per-operation contracts of header::map::IndexMap (child module of `header::map`)
// Each operation is verified ONCE from an ARBITRARY well-formed state: an induction over operation histories of any length.
// Instantiated at N = 4, V = u8 (the code is parametric in N and V; N < 255 is what it relies on).
use super::*;

const N: usize = 4;
const NULL: u8 = u8::MAX;
type Map = IndexMap<N, u8>;

/// arbitrary map with `len` entries: index bytes and entry contents symbolic; the NUMBER of entries is concrete per harness
/// (one harness per len = 0..=N: shapes enumerated, contents symbolic -- a symbolic len drags Vec's reallocation path into
/// every `push` and the query does not finish).  Built from an array + `set_len`; capacity N suffices: `set` on an empty
/// slot of a wf map has len < N.
fn any_map(len: usize) -> Map {
    let index: [u8; N] = kani::any();
    assert!(len <= N);
    let arr: [(usize, u8); N] = kani::any();
    let mut values: Vec<(usize, u8)> = Vec::from(arr);
    unsafe { values.set_len(len) };
    IndexMap { index, values }
}

/// representation invariant: slots and entries point at each other (no dangling slot, NO STALE ENTRY), at most N entries
fn wf(m: &Map) -> bool {
    if m.values.len() > N { return false }
    let mut i = 0;
    while i < N {
        let p = m.index[i];
        if p != NULL && (p as usize >= m.values.len() || m.values[p as usize].0 != i) { return false }
        i += 1;
    }
    let mut p = 0;
    while p < m.values.len() {
        let (i, _) = m.values[p];
        if i >= N || m.index[i] as usize != p { return false }
        p += 1;
    }
    true
}

/// abstract view: slot -> Option<value>
fn view(m: &Map) -> [Option<u8>; N] {
    let mut v = [None; N];
    let mut i = 0;
    while i < N {
        if m.index[i] != NULL { v[i] = Some(m.values[m.index[i] as usize].1) }
        i += 1;
    }
    v
}

fn same_except(a: &[Option<u8>; N], b: &[Option<u8>; N], k: usize) -> bool {
    let mut i = 0;
    while i < N { if i != k && a[i] != b[i] { return false } i += 1; }
    true
}

/// what `iter()` yields must be exactly the view: one (i, v) per live slot with its current value, nothing else
fn iter_matches_view(m: &Map) -> bool {
    let v = view(m);
    let mut seen = [false; N];
    for &(i, x) in m.iter() {
        if i >= N || seen[i] || v[i] != Some(x) { return false }
        seen[i] = true;
    }
    let mut i = 0;
    while i < N { if v[i].is_some() != seen[i] { return false } i += 1; }
    true
}

#[kani::proof]
#[kani::unwind(6)]
fn c03_map_new_contract() {
    let m: Map = IndexMap::new();
    assert!(wf(&m), "new: well-formed");
    assert!(view(&m) == [None; N], "new: empty view");
}

//@chunks 5 c03_map_get_contract get_body #[kani::proof] #[kani::unwind(6)]
fn get_body(len: usize) {
    let mut m = any_map(len);
    kani::assume(wf(&m));
    let k: usize = kani::any();
    kani::assume(k < N);
    let v = view(&m);
    assert!(unsafe { m.get(k) }.copied() == v[k], "get: returns the view at k");
    assert!(unsafe { m.get_mut(k) }.copied() == v[k], "get_mut: returns the view at k");
    kani::cover!(true);
}

//@chunks 5 c03_map_get_mut_write_contract get_mut_write_body #[kani::proof] #[kani::unwind(6)]
fn get_mut_write_body(len: usize) {
    let mut m = any_map(len);
    kani::assume(wf(&m));
    let k: usize = kani::any();
    kani::assume(k < N);
    let before = view(&m);
    if len == 0 { return }
    kani::assume(before[k].is_some());
    let x: u8 = kani::any();
    *unsafe { m.get_mut(k) }.unwrap() = x;
    assert!(wf(&m), "write through get_mut: well-formed");
    let after = view(&m);
    assert!(after[k] == Some(x) && same_except(&before, &after, k), "write through get_mut: only slot k changes");
}

//@chunks 4 c03_map_set_contract set_body #[kani::proof] #[kani::unwind(6)]
fn set_body(len: usize) {
    let mut m = any_map(len);
    kani::assume(wf(&m));
    let k: usize = kani::any();
    kani::assume(k < N);
    let before = view(&m);
    kani::assume(before[k].is_none());       // callers (Headers::insert/append) call `set` only on an empty slot
    let x: u8 = kani::any();
    unsafe { m.set(k, x) };
    assert!(wf(&m), "set: well-formed (in particular values.len() <= N, so `len() as u8` never truncates)");
    let after = view(&m);
    assert!(after[k] == Some(x), "set: slot k holds the value");
    assert!(same_except(&before, &after, k), "set: no other slot changes");
    kani::cover!(true);
}

//@chunks 5 c03_map_delete_contract delete_body #[kani::proof] #[kani::unwind(6)]
fn delete_body(len: usize) {
    let mut m = any_map(len);
    kani::assume(wf(&m));
    let k: usize = kani::any();
    kani::assume(k < N);
    let before = view(&m);
    unsafe { m.delete(k) };
    assert!(wf(&m), "delete: well-formed (no stale entry stays behind)");
    let after = view(&m);
    assert!(after[k].is_none(), "delete: slot k is empty");
    assert!(same_except(&before, &after, k), "delete: no other slot changes");
    kani::cover!(before[k].is_none() || len > 0);
}

//@chunks 5 c03_map_clear_contract clear_body #[kani::proof] #[kani::unwind(6)]
fn clear_body(len: usize) {
    let mut m = any_map(len);
    kani::assume(wf(&m));
    m.clear();
    assert!(wf(&m), "clear: well-formed");
    assert!(view(&m) == [None; N], "clear: empty view");
}

//@chunks 5 c03_map_iter_contract iter_body #[kani::proof] #[kani::unwind(6)]
fn iter_body(len: usize) {
    let m = any_map(len);
    kani::assume(wf(&m));
    assert!(iter_matches_view(&m), "iter: yields exactly one (slot, value) per live slot");
    let v = view(&m);
    let mut seen = [false; N];
    for (i, x) in m.clone().into_iter() {
        assert!(i < N && !seen[i] && v[i] == Some(x), "into_iter: yields only live slots with their values, once");
        seen[i] = true;
    }
    let mut i = 0;
    while i < N { assert!(v[i].is_some() == seen[i], "into_iter: yields every live slot"); i += 1; }
    kani::cover!(true);
}
