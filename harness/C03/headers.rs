// C03 — response::headers::Headers: `size` invariant, view after each operation, and the serializer never writing more than
// it reserved.  Pre-states are ENUMERATED operation histories (keys, value lengths and ownership concrete per harness, value CONTENTS symbolic),
// because an arbitrary Headers state (47-slot index + Vec<Cow>) is beyond CBMC (DESIGN §2).  That every operation depends on the
// current view only is what the IndexMap contracts (harness/C03/map.rs) establish from an arbitrary state.
use super::*;

const KEY: Header = Header::ContentType;     // the standard header the history operates on ("Content-Type", 12 bytes)
const BG: Header = Header::Vary;             // a second live standard header in the background ("Vary", 4 bytes)
const XKEY: &'static str = "X-K";            // the custom header the history operates on

/// value of CONCRETE length and ownership with SYMBOLIC content (shapes enumerated, contents symbolic: a symbolic choice among
/// strings of different lengths makes every memcpy symbolic-length, which CBMC answers slowly and -- measured -- imprecisely)
fn sym(len: usize, owned: bool, out: &mut [u8; 2]) -> Cow<'static, str> {
    let x: u8 = kani::any(); let y: u8 = kani::any();
    kani::assume(x < 128 && y < 128);
    out[0] = x; out[1] = y;
    let s = unsafe { String::from_utf8_unchecked(if len == 0 { vec![] } else if len == 1 { vec![x] } else { vec![x, y] }) };
    if owned { Cow::Owned(s) } else { Cow::Borrowed(Box::leak(s.into_boxed_str())) }
}
/// per-position value shapes: consecutive values differ in length so that a size update that forgets the old length is visible
const LEN_STD: [usize; 4] = [2, 1, 2, 0];
const LEN_CUSTOM: [usize; 4] = [1, 2, 0, 2];
const OWNED: [bool; 4] = [false, true, false, true];
// further schedules for the standard-key histories: an EMPTY owned/borrowed value in the first resp. second operation, so that
// "append to an empty value" and "re-set after an empty value" are among the enumerated states
const LEN_STD_B: [usize; 4] = [1, 0, 2, 1];
const OWNED_B: [bool; 4] = [true, true, false, false];
const LEN_STD_C: [usize; 4] = [1, 2, 0, 1];
const OWNED_C: [bool; 4] = [false, false, true, true];

/// model of one header's value: None = absent
#[derive(Clone, Copy)]
struct Model { live: bool, len: usize, bytes: [u8; 16] }
impl Model {
    fn absent() -> Self { Model { live: false, len: 0, bytes: [0; 16] } }
    fn set(&mut self, v: &[u8]) { self.live = true; self.len = 0; self.push(v) }
    fn push(&mut self, v: &[u8]) { let mut i = 0; while i < v.len() { self.bytes[self.len] = v[i]; self.len += 1; i += 1; } }
    fn append(&mut self, v: &[u8]) { if self.live { self.push(b", "); self.push(v) } else { self.set(v) } }
    fn remove(&mut self) { self.live = false; self.len = 0 }
    fn line_size(&self, name_len: usize) -> usize { if self.live { name_len + 2 + self.len + 2 } else { 0 } }
    fn matches(&self, got: Option<&str>) -> bool {
        match got {
            None => !self.live,
            Some(s) => {
                let b = s.as_bytes();
                if !self.live || b.len() != self.len { return false }
                let mut i = 0;
                while i < self.len { if b[i] != self.bytes[i] { return false } i += 1; }
                true
            }
        }
    }
}

/// k -> operation history of length 1..=3 over {0 insert, 1 append, 2 remove}:  k in 0..3 length 1, 3..12 length 2, 12..39 length 3
fn history(k: usize) -> (usize, [u8; 3]) {
    if k < 3 { (1, [k as u8, 0, 0]) }
    else if k < 12 { let j = k - 3; (2, [(j / 3) as u8, (j % 3) as u8, 0]) }
    else { let j = k - 12; (3, [(j / 9) as u8, ((j / 3) % 3) as u8, (j % 3) as u8]) }
}

/// expected wire image of the header block for (bg, key) in the given order, written into a fixed buffer
fn render(out: &mut [u8; 96], lines: [(&[u8], &Model); 2]) -> usize {
    let mut n = 0;
    let mut l = 0;
    while l < 2 {
        let (name, m) = lines[l];
        if m.live {
            let mut i = 0; while i < name.len() { out[n] = name[i]; n += 1; i += 1; }
            out[n] = b':'; out[n + 1] = b' '; n += 2;
            let mut i = 0; while i < m.len { out[n] = m.bytes[i]; n += 1; i += 1; }
            out[n] = b'\r'; out[n + 1] = b'\n'; n += 2;
        }
        l += 1;
    }
    out[n] = b'\r'; out[n + 1] = b'\n';
    n + 2
}
fn buf_is(buf: &[u8], exp: &[u8; 96], n: usize) -> bool {
    if buf.len() != n { return false }
    let mut i = 0;
    while i < n { if buf[i] != exp[i] { return false } i += 1; }
    true
}

fn empty_headers() -> Headers { Headers { standard: IndexMap::new(), custom: None, setcookie: None, size: 2 } }

/// history on the standard key KEY, background header BG live throughout
//@chunks 39 c03_hdr_std_history hdr_std_history_body #[kani::proof] #[kani::unwind(50)]
fn hdr_std_history_body(k: usize) { hdr_std_history_sched(k, LEN_STD, OWNED) }
fn hdr_std_history_b_body(k: usize) { hdr_std_history_sched(k, LEN_STD_B, OWNED_B) }
fn hdr_std_history_c_body(k: usize) { hdr_std_history_sched(k, LEN_STD_C, OWNED_C) }
//@chunks 39 c03_hdr_std_history_b hdr_std_history_b_body #[kani::proof] #[kani::unwind(50)]
//@chunks 39 c03_hdr_std_history_c hdr_std_history_c_body #[kani::proof] #[kani::unwind(50)]
fn hdr_std_history_sched(k: usize, lens: [usize; 4], owned: [bool; 4]) {
    let (n, ops) = history(k);
    let mut h = empty_headers();
    let mut bg = Model::absent();
    let mut key = Model::absent();
    let mut b = [0u8; 2];
    let v = sym(lens[0], owned[0], &mut b);
    h.insert(BG, v); bg.set(&b[..lens[0]]);
    let mut step = 0;
    while step < n {
        let l = lens[step + 1];
        match ops[step] {
            0 => { let v = sym(l, owned[step + 1], &mut b); h.insert(KEY, v); key.set(&b[..l]) }
            1 => { let v = sym(l, owned[step + 1], &mut b); h.append(KEY, v); key.append(&b[..l]) }
            _ => { h.remove(KEY); key.remove() }
        }
        assert!(h.size == 2 + bg.line_size(4) + key.line_size(12), "size == 2 + sum over live headers of (name + 2 + value + 2), after every operation");
        assert!(key.matches(h.get_standard(KEY)), "the operated header has exactly its latest value (set: new, append: `old, new`, remove: absent)");
        assert!(bg.matches(h.get_standard(BG)), "the other header is untouched");
        step += 1;
    }
    let mut buf: Vec<u8> = Vec::new();
    h._write_to(&mut buf);        // reserve(size) + the real write_unchecked_to (raw copy_nonoverlapping: CBMC checks every write is inside the allocation)
    assert!(buf.len() == h.size, "the serializer writes exactly `size` bytes");
    let mut e1 = [0u8; 96]; let n1 = render(&mut e1, [(b"Vary", &bg), (b"Content-Type", &key)]);
    let mut e2 = [0u8; 96]; let n2 = render(&mut e2, [(b"Content-Type", &key), (b"Vary", &bg)]);
    assert!(buf_is(&buf, &e1, n1) || buf_is(&buf, &e2, n2), "wire image: every live header exactly once with its latest value, no stale line, terminated by an empty line");
    // drop glue of the header block / output buffer is not under contract (it dominated several queries: measured)
    std::mem::forget(h); std::mem::forget(buf);
    kani::cover!(true);
}

/// history on the custom key XKEY, background standard header BG live throughout
//@chunks 39 c03_hdr_custom_history hdr_custom_history_body #[kani::proof] #[kani::unwind(50)]
fn hdr_custom_history_body(k: usize) {
    let (n, ops) = history(k);
    let mut h = empty_headers();
    let mut bg = Model::absent();
    let mut key = Model::absent();
    let mut b = [0u8; 2];
    let v = sym(LEN_CUSTOM[0], OWNED[0], &mut b);
    h.insert(BG, v); bg.set(&b[..LEN_CUSTOM[0]]);
    let mut step = 0;
    while step < n {
        let l = LEN_CUSTOM[step + 1];
        match ops[step] {
            0 => { let v = sym(l, OWNED[step + 1], &mut b); h.insert_custom(XKEY, v); key.set(&b[..l]) }
            1 => { let v = sym(l, OWNED[step + 1], &mut b); h.append_custom(XKEY, v); key.append(&b[..l]) }
            _ => { h.remove_custom(XKEY); key.remove() }
        }
        assert!(h.size == 2 + bg.line_size(4) + key.line_size(3), "size == 2 + sum over live headers of (name + 2 + value + 2), after every operation");
        assert!(key.matches(h.get_custom(XKEY)), "the operated custom header has exactly its latest value");
        assert!(bg.matches(h.get_standard(BG)), "the other header is untouched");
        step += 1;
    }
    let mut buf: Vec<u8> = Vec::new();
    h._write_to(&mut buf);
    assert!(buf.len() == h.size, "the serializer writes exactly `size` bytes");
    let mut e1 = [0u8; 96]; let n1 = render(&mut e1, [(b"Vary", &bg), (b"X-K", &key)]);
    assert!(buf_is(&buf, &e1, n1), "wire image: standard headers, then custom headers, each live header once with its latest value, empty line");
    // drop glue of the header block / output buffer is not under contract (it dominated several queries: measured)
    std::mem::forget(h); std::mem::forget(buf);
    kani::cover!(true);
}

/// ENUMERATED CONCRETE histories with an EMPTY value among the operands (the symbolic schedules B / C, where an append or a re-set follows an empty
/// value, end in CBMC out of memory and are not registered): standard key, values concrete, same postconditions
fn hdr_empty_value_concrete_body(k: usize) {
    let mut h = empty_headers();
    let mut bg = Model::absent();
    let mut key = Model::absent();
    h.insert(BG, Cow::Borrowed("v")); bg.set(b"v");
    let own = |s: &str| -> Cow<'static, str> { Cow::Owned(String::from(s)) };
    match k {
        0 => { h.insert(KEY, own("")); key.set(b""); h.append(KEY, Cow::Borrowed("x")); key.append(b"x"); }                    // append to an empty OWNED value
        1 => { h.insert(KEY, Cow::Borrowed("")); key.set(b""); h.append(KEY, own("xy")); key.append(b"xy"); }                  // append to an empty BORROWED value
        2 => { h.insert(KEY, own("")); key.set(b""); h.insert(KEY, Cow::Borrowed("ab")); key.set(b"ab"); }                     // re-set after an empty value
        3 => { h.insert(KEY, own("a")); key.set(b"a"); h.append(KEY, own("")); key.append(b""); }                              // append an EMPTY value
        4 => { h.insert(KEY, own("")); key.set(b""); h.remove(KEY); key.remove(); h.append(KEY, Cow::Borrowed("x")); key.append(b"x"); }   // empty, removed, appended
        _ => { h.append(KEY, own("")); key.append(b""); h.append(KEY, own("")); key.append(b""); }                            // two empty appends
    }
    assert!(h.size == 2 + bg.line_size(4) + key.line_size(12), "size == 2 + sum over live headers of (name + 2 + value + 2)");
    assert!(key.matches(h.get_standard(KEY)), "the operated header has exactly its latest value (set: new, append: `old, new`, remove: absent)");
    let mut buf: Vec<u8> = Vec::new();
    h._write_to(&mut buf);
    assert!(buf.len() == h.size, "the serializer writes exactly `size` bytes");
    let mut e1 = [0u8; 96]; let n1 = render(&mut e1, [(b"Vary", &bg), (b"Content-Type", &key)]);
    let mut e2 = [0u8; 96]; let n2 = render(&mut e2, [(b"Content-Type", &key), (b"Vary", &bg)]);
    assert!(buf_is(&buf, &e1, n1) || buf_is(&buf, &e2, n2), "wire image: every live header exactly once with its latest value, no stale line, terminated by an empty line");
    std::mem::forget(h); std::mem::forget(buf);
}
//@chunks 6 c03_hdr_empty_value_concrete hdr_empty_value_concrete_body #[kani::proof] #[kani::unwind(50)]

// ---------------------------------------------------------------- Response::send / complete / set_* (state + wire contracts)
//@include spec/block_on.rs
use vsupport::block_on;
use crate::{Response, Status};
use crate::response::Content;
use ohkami_lib::CowSlice;

fn starts_with(buf: &[u8], at: usize, pat: &[u8]) -> bool {
    if buf.len() < at + pat.len() { return false }
    let mut i = 0;
    while i < pat.len() { if buf[at + i] != pat[i] { return false } i += 1; }
    true
}

// NOTE: the two send harnesses below are kept for reference but are NOT registered (no answer within 15 min under CBMC).
/// send(Content::Payload): bytes on the wire == status line ++ header block ++ body, written within the reserved capacity
#[cfg(any())]
fn c03_send_payload_contract() {
    let mut h = empty_headers();
    h.insert(Header::ContentLength, Cow::Borrowed("3"));
    let body: [u8; 3] = kani::any();
    let res = Response { status: Status::OK, headers: h, content: Content::Payload(CowSlice::Own(Vec::from(body).into())) };
    let mut out: Vec<u8> = Vec::with_capacity(64);
    let _ = block_on(res.send(&mut out));
    const HEAD: &[u8] = b"HTTP/1.1 200 OK\r\nContent-Length: 3\r\n\r\n";
    assert!(out.len() == HEAD.len() + 3, "send: exactly status line + header block + body bytes");
    assert!(starts_with(&out, 0, HEAD), "send: status line, then the header block, then an empty line");
    assert!(out[HEAD.len()] == body[0] && out[HEAD.len() + 1] == body[1] && out[HEAD.len() + 2] == body[2], "send: body bytes follow, byte-exact");
    kani::cover!(body[0] == 0 && body[2] == b'\n');
}

/// send(Content::None) with 204: no body, no Content-Length
#[cfg(any())]
fn c03_send_none_contract() {
    let mut h = empty_headers();
    let mut b = [0u8; 2];
    let v = sym(2, true, &mut b);
    h.insert(Header::Vary, v);
    let res = Response { status: Status::NoContent, headers: h, content: Content::None };
    let mut out: Vec<u8> = Vec::with_capacity(64);
    let _ = block_on(res.send(&mut out));
    const LINE: &[u8] = b"HTTP/1.1 204 No Content\r\n";
    assert!(out.len() == LINE.len() + 10 + 2, "send(None): status line + header block, nothing else");
    assert!(starts_with(&out, 0, LINE) && starts_with(&out, LINE.len(), b"Vary: "), "send(None): status line then headers");
    assert!(out[LINE.len() + 6] == b[0] && out[LINE.len() + 7] == b[1] && starts_with(&out, LINE.len() + 8, b"\r\n\r\n"), "send(None): value then CRLF CRLF");
}

/// complete(): 204 => no Content-Length and no content, whatever was set before; k -> (Content-Length present?, payload present?) as compile-time shape
fn complete_204_body(k: usize) {
    let (with_cl, with_body) = (k & 1 != 0, k & 2 != 0);
    let mut h = empty_headers();
    if with_cl { h.insert(Header::ContentLength, Cow::Borrowed("2")); }
    let body: [u8; 2] = kani::any();
    let mut res = Response { status: Status::NoContent, headers: h,
        content: if with_body { Content::Payload(CowSlice::Own(Vec::from(body).into())) } else { Content::None } };
    res.complete();
    assert!(res.headers.ContentLength().is_none(), "complete: 204 carries no Content-Length");
    assert!(matches!(res.content, Content::None), "complete: 204 carries no body");
    assert!(res.headers.size == 2, "complete: size follows the removal");
    std::mem::forget(res);
    kani::cover!(true);
}
//@chunks 4 c03_complete_204_contract complete_204_body #[kani::proof] #[kani::unwind(50)]

/// set_payload / set_text: Content-Length is the decimal of the body length, Content-Type set, size invariant kept
#[kani::proof]
#[kani::unwind(50)]
fn c03_set_payload_contract() {
    let body: [u8; 3] = kani::any();
    let mut res = Response { status: Status::OK, headers: empty_headers(), content: Content::None };
    res.set_payload("a/b", Vec::from(body));
    assert!(res.headers.ContentLength() == Some("3"), "set_payload: Content-Length is the decimal body length");
    assert!(res.headers.ContentType() == Some("a/b"), "set_payload: Content-Type set");
    assert!(res.headers.size == 2 + (12 + 2 + 3 + 2) + (14 + 2 + 1 + 2), "set_payload: size invariant");
    assert!(res.payload().map(|p| p.len()) == Some(3), "set_payload: payload stored");
    // replacing the content re-sets (not duplicates) the headers
    res.set_text("hello, world");
    assert!(res.headers.ContentLength() == Some("12"), "set_text: Content-Length re-set to the new length");
    assert!(res.headers.size == 2 + (12 + 2 + 25 + 2) + (14 + 2 + 2 + 2), "set_text: size invariant after re-set");
    let _ = res.drop_content();
    assert!(res.headers.ContentLength().is_none() && res.headers.ContentType().is_none() && res.headers.size == 2, "drop_content: both headers removed, size back to 2");
    assert!(matches!(res.content, Content::None), "drop_content: no content");
}
