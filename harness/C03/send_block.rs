// C03 — Response::send, Content::Payload branch: the serialization block (reserve `status line + headers.size + body`, then three raw copies)
// is EXTRACTED VERBATIM on every run (lib/vf.py //@extract: the lines between `Content::Payload(bytes) => {` and the first
// `conn.write_all(&buf).await` after it).  Dropped: the await points (write_all, flush).  A harness over the whole async `send` does not get
// through CBMC (DESIGN §9.1).  Contract: every raw copy stays inside the reserved allocation (CBMC's pointer checks on copy_nonoverlapping /
// set_len), exactly `status line + size + body` bytes are produced, and the wire image is status line, header block, empty line, body, with a
// Content-Length equal to the number of body bytes.
use super::*;
fn stub_ts() -> u64 { 0 }
impl Response {
    fn __verif_payload_block(self, bytes: CowSlice) -> Vec<u8> {
        //@extract ohkami/src/response/mod.rs <<Content::Payload(bytes) => {>> <<conn.write_all(&buf).await>>
        std::mem::forget(self);
        buf
    }
}
fn at(buf: &[u8], i: usize, pat: &[u8]) -> bool { if buf.len() < i + pat.len() { return false } let mut k = 0; while k < pat.len() { if buf[i + k] != pat[k] { return false } k += 1; } true }

/// body of concrete length n with symbolic bytes, built through the public setter (which also declares the length)
fn send_payload_body(n: usize) {
    let raw: [u8; 3] = kani::any();
    let mut res = Response::new(Status::OK);
    res.set_payload("a/b", if n == 0 { vec![] } else if n == 1 { vec![raw[0]] } else if n == 2 { vec![raw[0], raw[1]] } else { vec![raw[0], raw[1], raw[2]] });
    res.complete();
    let size = res.headers.size;
    let declared_ok = matches!(res.headers.ContentLength(), Some(v) if v.len() == 1 && v.as_bytes()[0] == b'0' + n as u8);
    assert!(declared_ok, "send: the response that may carry a body declares Content-Length == number of body bytes");
    let bytes = match std::mem::replace(&mut res.content, Content::None) { Content::Payload(b) => b, _ => { assert!(n == 0, "set_payload stores the payload"); CowSlice::Own(Vec::new().into()) } };
    let cap_wanted = 17 + size + n;
    let buf = res.__verif_payload_block(bytes);
    assert!(buf.len() == cap_wanted, "send: exactly status line + header block (`size` bytes) + body bytes are written");
    assert!(buf.capacity() >= buf.len(), "send: nothing is written beyond the reserved capacity");
    assert!(at(&buf, 0, b"HTTP/1.1 200 OK\r\n"), "send: the status line comes first");
    assert!(at(&buf, 17 + size - 4, b"\r\n\r\n"), "send: the header block ends with an empty line");
    let mut i = 0; while i < n { assert!(buf[17 + size + i] == raw[i], "send: the body bytes follow the empty line, byte-exact"); i += 1; }
    std::mem::forget(buf);
    kani::cover!(true);
}
//@chunks 4 c03_send_payload_block send_payload_body #[kani::proof] #[kani::unwind(50)] #[kani::stub(crate::util::unix_timestamp, stub_ts)]
