/// CBMC-friendly reference implementation of RFC 3986 percent-decoding (what `percent_encoding::percent_decode` computes:
/// `%XY` with two hex digits -> that byte, everything else verbatim).  Used as the ASSUMED CONTRACT of the external crate
/// (stubbed for ohkami_lib::percent_encoding::{percent_decode, percent_decode_utf8}); input length <= 24.
fn spec_hex(b: u8) -> Option<u8> {
    match b { b'0'..=b'9' => Some(b - b'0'), b'a'..=b'f' => Some(b - b'a' + 10), b'A'..=b'F' => Some(b - b'A' + 10), _ => None }
}
pub(super) fn spec_percent_decode(input: &[u8]) -> std::borrow::Cow<'_, [u8]> {
    assert!(input.len() <= 24, "harness bound of the percent-decoding stub");
    let mut out = [0u8; 24];
    let (mut i, mut n, mut any) = (0usize, 0usize, false);
    while i < input.len() {
        if input[i] == b'%' && i + 2 < input.len() + 0 + 1 - 0 && i + 2 <= input.len() - 1 + 0 {
            if let (Some(h), Some(l)) = (spec_hex(input[i + 1]), spec_hex(input[i + 2])) {
                out[n] = h * 16 + l; n += 1; i += 3; any = true;
                continue
            }
        }
        out[n] = input[i]; n += 1; i += 1;
    }
    if !any { return std::borrow::Cow::Borrowed(input) }
    // build the Vec with a CONCRETE capacity and set_len (no symbolic-size allocation)
    let mut v: Vec<u8> = Vec::from(out);
    unsafe { v.set_len(n) };
    std::borrow::Cow::Owned(v)
}
pub(super) fn spec_percent_decode_utf8(input: &[u8]) -> Result<std::borrow::Cow<'_, str>, std::str::Utf8Error> {
    match spec_percent_decode(input) {
        std::borrow::Cow::Borrowed(b) => if spec_utf8(b) { Ok(std::borrow::Cow::Borrowed(unsafe { std::str::from_utf8_unchecked(b) })) } else { Err(utf8_error()) },
        std::borrow::Cow::Owned(v) => if spec_utf8(&v) { Ok(std::borrow::Cow::Owned(unsafe { String::from_utf8_unchecked(v) })) } else { Err(utf8_error()) },
    }
}
fn utf8_error() -> std::str::Utf8Error { std::str::from_utf8(&[0xFFu8]).unwrap_err() }
