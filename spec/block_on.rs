// shared harness support: a minimal executor (all futures driven by in-memory streams complete without Pending, but the loop is general)
pub(super) mod vsupport {
    use std::future::Future;
    use std::pin::Pin;
    use std::task::{Context, Poll, RawWaker, RawWakerVTable, Waker};
    fn noop_raw() -> RawWaker {
        fn clone(_: *const ()) -> RawWaker { noop_raw() }
        fn noop(_: *const ()) {}
        static VT: RawWakerVTable = RawWakerVTable::new(clone, noop, noop, noop);
        RawWaker::new(std::ptr::null(), &VT)
    }
    pub fn block_on<F: Future>(mut f: F) -> F::Output {
        let waker = unsafe { Waker::from_raw(noop_raw()) };
        let mut cx = Context::from_waker(&waker);
        let mut f = unsafe { Pin::new_unchecked(&mut f) };
        let mut polls = 0;
        loop {
            if let Poll::Ready(v) = f.as_mut().poll(&mut cx) { return v }
            polls += 1;
            assert!(polls < 4, "harness executor: future stays Pending");
        }
    }
}
