/// ASSUMED CONTRACT of core::str::from_utf8 (std's word-at-a-time validator is what CBMC cannot get through, even on concrete input):
/// Ok(the same bytes as str) iff the reference validator accepts, Err otherwise.
pub(super) fn stub_from_utf8(v: &[u8]) -> Result<&str, std::str::Utf8Error> {
    if spec_utf8(v) { Ok(unsafe { std::str::from_utf8_unchecked(v) }) }
    else {
        // a Utf8Error value cannot be built without the stubbed function itself; its content is never inspected by the code under contract
        const _: () = assert!(std::mem::size_of::<std::str::Utf8Error>() == 16);
        Err(unsafe { std::mem::transmute::<[u64; 2], std::str::Utf8Error>([0, 0]) })
    }
}
