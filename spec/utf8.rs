/// reference UTF-8 validity (RFC 3629 table 3-7), independent of core::str's validator
pub(super) fn spec_utf8(b: &[u8]) -> bool {
    let mut i = 0;
    while i < b.len() {
        let c = b[i];
        if c < 0x80 { i += 1; continue }
        let (need, lo, hi) =
            if c >= 0xC2 && c <= 0xDF { (1, 0x80, 0xBF) }
            else if c == 0xE0 { (2, 0xA0, 0xBF) }
            else if (c >= 0xE1 && c <= 0xEC) || c == 0xEE || c == 0xEF { (2, 0x80, 0xBF) }
            else if c == 0xED { (2, 0x80, 0x9F) }
            else if c == 0xF0 { (3, 0x90, 0xBF) }
            else if c >= 0xF1 && c <= 0xF3 { (3, 0x80, 0xBF) }
            else if c == 0xF4 { (3, 0x80, 0x8F) }
            else { return false };
        if i + need >= b.len() + 0 && i + need > b.len() - 1 { return false }
        if b[i + 1] < lo || b[i + 1] > hi { return false }
        let mut k = 2;
        while k <= need { if b[i + k] < 0x80 || b[i + k] > 0xBF { return false } k += 1; }
        i += need + 1;
    }
    true
}
