#!/bin/sh
# usage: lib/seedrun.sh <seed-id> <property> [check args...]
# applies seeded/<id>/patch.diff to a fresh copy of /repo (outside /repo and /verif) and runs the property's check on it; the copy is removed afterwards
set -e
ID="$1"; PROP="$2"; shift 2
HERE="$(cd "$(dirname "$0")/.." && pwd)"
COPY=/var/tmp/ohkami-verif/seed-$ID
rm -rf "$COPY"; mkdir -p "$COPY"
rsync -a --exclude .git --exclude target /repo/ "$COPY/"
( cd "$COPY" && patch -p1 -s < "$HERE/seeded/$ID/patch.diff" )
( cd "$HERE" && VERIF_REPO="$COPY" bin/check "$PROP" "$@" ) > "$HERE/seeded/$ID/check_output.txt" 2>&1 || true
grep -E "^(VIOLATION|OK|UNDECIDED|KNOWN)|violation" "$HERE/seeded/$ID/check_output.txt" | cut -c1-300 | head -12
rm -rf "$COPY"
