#!/bin/sh
# usage: lib/killh.sh <substring of harness name>   -- kills the cbmc processes of matching harnesses (by pid, never by pattern on the shell)
for p in $(pgrep -x cbmc); do
  if tr '\0' ' ' < /proc/$p/cmdline | grep -q "$1"; then kill $p; echo killed $p; fi
done
