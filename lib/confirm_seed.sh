#!/bin/sh
# usage: lib/confirm_seed.sh <wt> <crate dir (ohkami|ohkami_lib)> <demo file> <cargo test args...>
# confirms a seeded change in its worktree: baseline suite with the change (43 pass), demo FAILS with it, demo PASSES without it.
# prints one RESULT line; leaves the worktree unmodified (patch.diff + demo/ kept), removes target/.
WT="$1"; CRATE="$2"; DEMO="$3"; shift 3
cd "$WT" || exit 2
export CARGO_NET_OFFLINE=true
git checkout -- . ; rm -rf "$CRATE/tests"
git apply patch.diff || { echo "RESULT patch does not apply"; exit 2; }
BASE=$(cargo test --workspace --no-fail-fast --offline --lib 2>&1 | grep "^test result" | awk '{p+=$4; f+=$6} END {print p" passed "f" failed"}')
mkdir -p "$CRATE/tests"; cp "demo/$DEMO" "$CRATE/tests/$DEMO"
WITH=$(cargo test --offline "$@" 2>&1 | grep "^test result" | head -1)
git checkout -- .
WITHOUT=$(cargo test --offline "$@" 2>&1 | grep "^test result" | head -1)
rm -rf "$CRATE/tests" target
echo "RESULT baseline(with change): $BASE | demo with change: $WITH | demo without change: $WITHOUT | cmd: cargo test --offline $*"
