#!/usr/bin/env python3
"""
Contract-verification driver for ohkami (see /verif/DESIGN.md §3).

  scratch copy of /repo's working tree  ->  inject contracts + harness modules (cfg(kani) only)
  ->  cargo kani (one codegen per crate, one process per harness, pool)  ->  parse  ->
  evidence / VIOLATION / KNOWN-FINDING lines / replay files.

Exit codes: 0 = every obligation discharged (known findings printed), 1 = violation,
            2 = undecided (lost anchor, timeout, unwinding failure, tool error) -- never an alarm.
"""
import concurrent.futures as cf
import hashlib
import importlib.util
import json
import os
import re
import shutil
import signal
import subprocess
import sys
import time

VERIF = os.path.dirname(os.path.dirname(os.path.abspath(__file__)))
REPO = os.environ.get("VERIF_REPO", "/repo")
SCRATCH_ROOT = os.environ.get("VERIF_SCRATCH", "/var/tmp/ohkami-verif")
KANI_FLAGS = ["-Z", "function-contracts", "-Z", "stubbing", "-Z", "concrete-playback", "-Z", "unstable-options"]
FEATURES = {"ohkami": "rt_tokio,sse", "ohkami_lib": "stream"}
ENV = dict(os.environ, CARGO_NET_OFFLINE="true", CARGO_TERM_COLOR="never")


def _side_run():
    """a run on a patched copy (VERIF_REPO) or a development run (VERIF_DEV, --only): logs / evidence / replays go to logs/_mutated_<id>, never over the real ones"""
    return "VERIF_REPO" in os.environ or "VERIF_DEV" in os.environ


class Undecided(Exception):
    pass


# ----------------------------------------------------------------------------- property description
class H:
    """one harness = one group of obligations"""

    def __init__(self, name, crate, functions, clauses, tier="quick", timeout=600, strength="bounded",
                 bound="", unwindset=None, kind="contract", finding=None, solver=None, extra=None, mem_gb=12,
                 expect_covers=True, crosscheck=False, tier_override=None):
        self.name = name              # harness fn name (unique)
        self.crate = crate
        self.functions = functions    # functions under contract
        self.clauses = clauses        # human readable contract clauses
        self.tier = tier_override or tier   # quick harnesses also run in thorough
        self.timeout = timeout
        self.strength = strength      # proved | bounded
        self.bound = bound or ("full input domain" if strength == "proved" else "")
        self.unwindset = unwindset or {}   # {substring of loop id: bound}
        self.kind = kind
        self.finding = finding        # id in known_findings.json if this harness is EXPECTED to fail (finding harness)
        self.solver = solver
        self.extra = extra or []
        self.mem_gb = mem_gb
        self.expect_covers = expect_covers
        self.crosscheck = crosscheck  # bounded cross-check beside a full-domain proof of the same clause: does not lower the level


class C:
    """attribute contract inserted above an anchored fn"""

    def __init__(self, file, anchor, attrs, within=None):
        self.file, self.anchor, self.attrs, self.within = file, anchor, attrs, within


class M:
    """harness module appended to a source file"""

    def __init__(self, file, harness, modname=None):
        self.file, self.harness, self.modname = file, harness, modname


class R:
    """a stated textual rewrite of executable text (I3-style verification parameter); reported as a bound"""

    def __init__(self, file, old, new, why):
        self.file, self.old, self.new, self.why = file, old, new, why


def load_prop(pid):
    path = os.path.join(VERIF, "props", pid + ".py")
    if not os.path.exists(path):
        raise SystemExit(f"unknown property {pid}")
    spec = importlib.util.spec_from_file_location("prop_" + pid, path)
    mod = importlib.util.module_from_spec(spec)
    spec.loader.exec_module(mod)
    return mod


# ----------------------------------------------------------------------------- scratch copy + injection
def make_scratch(tag):
    os.makedirs(SCRATCH_ROOT, exist_ok=True)
    d = os.path.join(SCRATCH_ROOT, f"{tag}.{os.getpid()}")
    if os.path.exists(d):
        shutil.rmtree(d)
    os.makedirs(d)
    # working tree (tracked + untracked, modifications included); never .git or build output
    subprocess.run(["rsync", "-a", "--exclude", ".git", "--exclude", "/target", "--exclude", "target/",
                    "--exclude", "/benches*", "--exclude", "/examples", "--exclude", "/samples",
                    REPO + "/", d + "/"], check=True)
    return d


def find_anchor(lines, anchor, within):
    """index of the line containing `anchor` (unique, optionally after the first line containing `within`
    and before the next top-level item)."""
    start, end = 0, len(lines)
    if within:
        ws = [i for i, l in enumerate(lines) if within in l and not l.lstrip().startswith("//")]
        if not ws:
            raise Undecided(f"lost anchor: `{within}` not found")
        start = ws[0]
        # end of the block: next line that starts at column 0 with '}'
        for j in range(start + 1, len(lines)):
            if lines[j].startswith("}"):
                end = j
                break
    hits = [i for i in range(start, end) if anchor in lines[i] and not lines[i].lstrip().startswith("//")]
    if len(hits) != 1:
        raise Undecided(f"lost anchor: `{anchor}`" + (f" within `{within}`" if within else "") + f" matched {len(hits)} lines")
    i = hits[0]
    # move above attributes / doc comments directly attached to the fn
    while i > 0 and (lines[i - 1].lstrip().startswith("#[") or lines[i - 1].lstrip().startswith("///")):
        i -= 1
    return i


BEGIN_MARK = "// ==== VERIF-INJECTED (cfg(kani) only) ===="
EXTRACTED = []   # blocks extracted verbatim from the real source into harness functions (reported in the evidence)


def inject(scratch, prop, pid):
    """returns the scan of assumptions found in the injected text"""
    per_file = {}
    for c in getattr(prop, "CONTRACTS", []):
        per_file.setdefault(c.file, {"contracts": [], "mods": [], "rewrites": []})["contracts"].append(c)
    for m in getattr(prop, "MODULES", []):
        per_file.setdefault(m.file, {"contracts": [], "mods": [], "rewrites": []})["mods"].append(m)
    for r in getattr(prop, "REWRITES", []):
        per_file.setdefault(r.file, {"contracts": [], "mods": [], "rewrites": []})["rewrites"].append(r)
    injected_text = []
    for file, what in per_file.items():
        path = os.path.join(scratch, file)
        if not os.path.exists(path):
            raise Undecided(f"lost anchor: file {file} does not exist")
        orig = open(path).read()
        text = orig
        for r in what["rewrites"]:
            if text.count(r.old) != 1:
                raise Undecided(f"lost anchor: rewrite target `{r.old}` matched {text.count(r.old)} times in {file}")
            text = text.replace(r.old, f"#[cfg(not(kani))] {r.old}\n#[cfg(kani)] {r.new}")
        lines = text.split("\n")
        inserts = []
        for c in what["contracts"]:
            i = find_anchor(lines, c.anchor, c.within)
            indent = re.match(r"\s*", lines[i]).group(0)
            inserts.append((i, [f"{indent}#[cfg_attr(kani, {a})]" for a in c.attrs]))
            injected_text += c.attrs
        for i, attrs in sorted(inserts, key=lambda t: -t[0]):
            lines[i:i] = attrs
        out = "\n".join(lines)
        if what["mods"]:
            out = out.rstrip("\n") + "\n\n" + BEGIN_MARK + "\n"
            for m in what["mods"]:
                src = open(os.path.join(VERIF, m.harness)).read()
                # spec files shared between harness modules:  //@include spec/xyz.rs
                def inc(mo):
                    return open(os.path.join(VERIF, mo.group(1))).read()
                src = re.sub(r"^//@include\s+(\S+)\s*$", inc, src, flags=re.M)
                # mechanical extraction of an inline block of the real source:  //@extract <file> <<first line marker>> <<end marker>>
                # is replaced by the text strictly between the (unique) line containing the first marker and the (unique) line containing
                # the end marker, verbatim (token-identical to what runs; re-extracted on every run; a lost marker is exit 2)
                def ext(mo):
                    rel, a, b = mo.group(1), mo.group(2), mo.group(3)
                    lines_ = open(os.path.join(REPO, rel)).read().split("\n")
                    incl = a.startswith("+")          # `<<+marker>>`: the marker line itself is part of the extracted text
                    a = a[1:] if incl else a
                    ia = [i for i, l in enumerate(lines_) if a in l]
                    # the end marker is the FIRST line containing it after the (unique) start marker
                    ib = [i for i, l in enumerate(lines_) if b in l and ia and i > ia[0]][:1]
                    if len(ia) != 1 or len(ib) != 1:
                        raise Undecided(f"lost anchor: extraction markers `{a}` / `{b}` matched {len(ia)} / {len(ib)} lines in {rel}")
                    text = "\n".join(lines_[ia[0] + (0 if incl else 1):ib[0]])
                    EXTRACTED.append(dict(file=rel, from_marker=a, to_marker=b, lines=ib[0] - ia[0] - 1, sha256=hashlib.sha256(text.encode()).hexdigest()))
                    return "// ---- extracted verbatim from " + rel + "\n" + text + "\n// ---- end of extraction"
                src = re.sub(r"^\s*//@extract\s+(\S+)\s+<<(.*?)>>\s+<<(.*?)>>\s*$", ext, src, flags=re.M)
                src = expand_chunks(src)
                modname = m.modname or f"__verif_{pid.lower()}"
                out += f"#[cfg(kani)]\n#[allow(unused, non_snake_case)]\npub(crate) mod {modname} {{\n{src}\n}}\n"
                injected_text.append(src)
        open(path, "w").write(out)
        check_faithful(file, orig, out, what)
    lock = os.path.join(REPO, "Cargo.lock")
    if os.path.exists(lock):
        shutil.copy(lock, os.path.join(scratch, "Cargo.lock"))
    return "\n".join(injected_text)


def expand_chunks(src):
    """`//@chunks N prefix body_fn <attributes>`  ->  N harnesses `prefix_kNN` calling `body_fn(k)` (domain partition)"""
    def rep(mo):
        n, prefix, body, attrs = int(mo.group(1)), mo.group(2), mo.group(3), mo.group(4)
        return "\n".join(f"{attrs}\nfn {prefix}_k{k:02d}() {{ {body}({k}) }}" for k in range(n))
    return re.sub(r"^//@chunks\s+(\d+)\s+(\w+)\s+(\w+)\s+(.*)$", rep, src, flags=re.M)


def check_faithful(file, orig, out, what):
    """the scratch file minus what we inserted must be the /repo file, byte for byte"""
    body = out.split("\n\n" + BEGIN_MARK + "\n")[0] if what["mods"] else out
    kept = [l for l in body.split("\n") if not l.lstrip().startswith("#[cfg_attr(kani, kani::")]
    back = "\n".join(kept)
    for r in what["rewrites"]:
        back = back.replace(f"#[cfg(not(kani))] {r.old}\n#[cfg(kani)] {r.new}", r.old)
    if back.rstrip("\n") != orig.rstrip("\n"):
        raise Undecided(f"extraction not faithful for {file}")


def scan_assumptions(text):
    found = []
    for pat, label in [(r"kani::assume\(", "kani::assume"), (r"kani::stub\(([^)]*)\)", "kani::stub"),
                       (r"stub_verified\(([^)]*)\)", "stub_verified"), (r"kani::unwind\((\d+)\)", "kani::unwind")]:
        ms = re.findall(pat, text)
        if ms:
            uniq = sorted(set(m if isinstance(m, str) else "" for m in ms))
            found.append(f"{label} x{len(ms)}" + (": " + ", ".join(u for u in uniq if u) if any(uniq) else ""))
    return found


# ----------------------------------------------------------------------------- running kani
def crate_dir(scratch, crate):
    return os.path.join(scratch, crate)


def codegen(scratch, crate, log):
    cmd = ["cargo", "kani", "--only-codegen", "--features", FEATURES[crate]] + KANI_FLAGS
    t = time.time()
    p = subprocess.run(cmd, cwd=crate_dir(scratch, crate), env=ENV, stdout=subprocess.PIPE, stderr=subprocess.STDOUT, text=True)
    log.write(f"$ {' '.join(cmd)}\n{p.stdout}\n")
    if p.returncode != 0:
        tail = "\n".join(p.stdout.splitlines()[-40:])
        raise Undecided(f"codegen failed for {crate} (injected text or /repo does not compile under Kani):\n{tail}")
    return time.time() - t


def loop_ids(scratch, crate, harness):
    """loop ids of the goto binary of one harness, via `cbmc --show-loops` (mangled names contain the crate hash)"""
    import glob
    outs = glob.glob(os.path.join(scratch, "target", "kani", "*", "debug", "build", "*", "out", f"*{harness}*.out")) + \
        glob.glob(os.path.join(scratch, "target", "kani", "**", f"*{harness}*.out"), recursive=True)
    outs = sorted(set(outs))
    if not outs:
        return []
    p = subprocess.run(["cbmc", "--show-loops", outs[0]], stdout=subprocess.PIPE, stderr=subprocess.DEVNULL, text=True)
    return re.findall(r"^Loop (\S+):", p.stdout, flags=re.M)


def resolve_unwindset(scratch, h):
    if not h.unwindset:
        return None
    ids = loop_ids(scratch, h.crate, h.name)
    pairs = []
    for key, n in h.unwindset.items():
        # key = "<fn substring>.<loop number>" or "<fn substring>" (all loops of that fn)
        m = re.match(r"^(.*?)(?:\.(\d+))?$", key)
        fn, num = m.group(1), m.group(2)
        matched = [i for i in ids if all(part in i for part in fn.split("&")) and (num is None or i.endswith("." + num))]
        for i in matched:
            pairs.append(f"{i}:{n}")
    return ",".join(sorted(set(pairs))) if pairs else None


def group_key(h):
    return (h.crate, json.dumps(h.unwindset, sort_keys=True), h.solver or "", " ".join(h.extra))


def run_group(scratch, crate, hs, logdir, jobs, gi):
    """one `cargo kani` invocation for a set of harnesses that share crate / cbmc args: one codegen, -j parallel CBMC runs,
    per-harness result files (--output-into-files).  Returns {harness name: parsed result}."""
    base = ["cargo", "kani", "--features", FEATURES[crate]] + KANI_FLAGS + ["--no-assertion-reach-checks"]
    sel = []
    for h in hs:
        sel += ["--harness", h.name]
    h0 = hs[0]
    tail = []
    if h0.solver:
        tail += ["--solver", h0.solver]
    tail += h0.extra
    cwd = crate_dir(scratch, crate)
    glog = os.path.join(logdir, f"_group{gi}.log")
    with open(glog, "w") as lf:
        if h0.unwindset:
            cmd = base + ["--only-codegen"] + sel
            lf.write("$ " + " ".join(cmd) + "\n"); lf.flush()
            p = subprocess.run(cmd, cwd=cwd, env=ENV, stdout=lf, stderr=subprocess.STDOUT)
            if p.returncode != 0:
                raise Undecided(f"codegen failed for {crate} (see {glog})")
            uw = resolve_unwindset(scratch, h0)
            if not uw:
                raise Undecided(f"unwindset of {h0.name} matched no loop (lost anchor)")
            tail += ["--cbmc-args", "--unwindset", uw]
        tmo = max(h.timeout for h in hs)
        outdir = os.path.join(cwd, f"results_g{gi}")
        cmd = base + ["-j", str(max(1, min(jobs, len(hs)))), "--output-format=terse", "--output-into-files",
                      "--harness-timeout", f"{tmo}s"] + sel + tail
        lf.write("$ " + " ".join(cmd) + "\n"); lf.flush()
        t = time.time()
        # kani writes result_output_dir/<harness path> relative to the cwd: give each group its own cwd-relative dir via a subdir cwd
        p = subprocess.Popen(cmd, cwd=cwd, env=dict(ENV), stdout=lf, stderr=subprocess.STDOUT, preexec_fn=os.setsid)
        try:
            p.wait(timeout=tmo * (1 + (len(hs) - 1) // max(1, jobs)) + 600)
        except subprocess.TimeoutExpired:
            try:
                os.killpg(p.pid, signal.SIGKILL)
            except ProcessLookupError:
                pass
            p.wait()
        wall = time.time() - t
    gout = open(glog).read()
    if "error: could not compile" in gout or re.search(r"^error(\[E\d+\])?:", gout, flags=re.M):
        tailtxt = "\n".join([l for l in gout.splitlines() if not l.startswith(("warning", " ", "\t"))][-30:])
        if "VERIFICATION" not in gout:
            raise Undecided(f"codegen failed for {crate} (injected text or /repo does not compile under Kani):\n{tailtxt}")
    results = {}
    rdir = os.path.join(cwd, "result_output_dir")
    for h in hs:
        out = ""
        if os.path.isdir(rdir):
            for fn in os.listdir(rdir):
                if fn == h.name or fn.endswith("::" + h.name):
                    out = open(os.path.join(rdir, fn)).read()
                    shutil.copy(os.path.join(rdir, fn), os.path.join(logdir, h.name + ".log"))
        res = parse_kani(out)
        res.update(harness=h.name, timed_out=("CBMC timed out" in out), returncode=p.returncode,
                   log=os.path.join(logdir, h.name + ".log") if out else glog, cmd=" ".join(cmd), wall_s=res.get("verification_time_s"))
        if not out:
            res["missing"] = True
        results[h.name] = res
    return results, wall


def run_single_with_playback(scratch, h, logdir):
    """second pass for a falsified harness: same query, alone, with --concrete-playback=print (incompatible with -j)"""
    cmd = ["cargo", "kani", "--features", FEATURES[h.crate]] + KANI_FLAGS + \
          ["--no-assertion-reach-checks", "--concrete-playback=print", "--harness", h.name]
    if h.solver:
        cmd += ["--solver", h.solver]
    cmd += h.extra
    uw = resolve_unwindset(scratch, h)
    if uw:
        cmd += ["--cbmc-args", "--unwindset", uw]
    logf = os.path.join(logdir, h.name + ".playback.log")
    with open(logf, "w") as lf:
        lf.write("$ " + " ".join(cmd) + "\n"); lf.flush()
        p = subprocess.Popen(cmd, cwd=crate_dir(scratch, h.crate), env=ENV, stdout=lf, stderr=subprocess.STDOUT, preexec_fn=os.setsid)
        try:
            p.wait(timeout=h.timeout + 300)
        except subprocess.TimeoutExpired:
            try:
                os.killpg(p.pid, signal.SIGKILL)
            except ProcessLookupError:
                pass
            p.wait()
    return parse_kani(open(logf).read())


CHECK_RE = re.compile(
    r"^Check (\d+): ([^\n]+)\n\s+- Status: (\S+)\n\s+- Description: \"(.*?)\"\n(?:\s+- Location: (.*?)\n)?", re.M | re.S)


def parse_kani(out):
    checks = []
    for m in CHECK_RE.finditer(out):
        checks.append(dict(id=m.group(2), status=m.group(3), description=m.group(4).replace("\n", " "), location=(m.group(5) or "").strip()))
    verdict = None
    m = re.search(r"^VERIFICATION:- (\w+)", out, flags=re.M)
    if m:
        verdict = m.group(1)
    vt = re.search(r"^Verification Time: ([\d.]+)s", out, flags=re.M)
    playback = None
    pm = re.search(r"Concrete playback unit test for `[^`]*`:\n```\n(.*?)```", out, flags=re.S)
    if pm:
        playback = pm.group(1)
    stubs = re.findall(r"^\s*- Stub: (.*)$", out, flags=re.M)
    solver = None
    sm = re.search(r"Solving with (.*)", out)
    if sm:
        solver = sm.group(1).strip()
    rt = re.findall(r"Runtime (Symex|Postprocess Equation|Convert SSA|Solver|decision procedure): ([\d.e+-]+)s", out)
    return dict(checks=checks, verdict=verdict, verification_time_s=float(vt.group(1)) if vt else None,
                playback=playback, stubs=stubs, solver=solver,
                runtimes={k: float(v) for k, v in rt[-5:]} if rt else {},
                unsupported=bool(re.search(r"unsupported|Unsupported", out)) and False)


def classify(h, res):
    """-> (state, details)   state in ok | violation | undecided"""
    if res["timed_out"]:
        return "undecided", f"timeout after {h.timeout}s"
    if res["verdict"] is None:
        tail = "\n".join(open(res["log"]).read().splitlines()[-15:])
        return "undecided", "no verdict from Kani (tool error / out of memory):\n" + tail
    failed = [c for c in res["checks"] if c["status"] == "FAILURE"]
    undet = [c for c in res["checks"] if c["status"] in ("UNDETERMINED",)]
    covers = [c for c in res["checks"] if ".cover." in c["id"]]
    unsat_cover = [c for c in covers if c["status"] in ("UNSATISFIABLE", "UNREACHABLE")]
    unwinding = [c for c in failed if "unwind" in c["id"] or "unwinding assertion" in c["description"]]
    unsupported = [c for c in failed if "unsupported" in c["id"].lower() or "is not currently supported" in c["description"]]
    real = [c for c in failed if c not in unwinding and c not in unsupported]
    if real:
        return "violation", real
    if unwinding:
        return "undecided", "unwinding assertion failed: " + unwinding[0]["id"]
    if unsupported:
        return "undecided", "unsupported construct reached: " + unsupported[0]["description"]
    if res["verdict"] != "SUCCESSFUL":
        return "undecided", f"verdict {res['verdict']} without a falsified obligation ({len(undet)} undetermined)"
    if unsat_cover and h.expect_covers:
        return "undecided", "vacuous harness: cover goal not satisfiable: " + unsat_cover[0]["description"]
    if not res["checks"]:
        return "undecided", "no obligations generated"
    return "ok", None


# ----------------------------------------------------------------------------- native replay
def native_replay(scratch, h, res, prop, pid):
    """append the playback test Kani printed to the harness module and run it natively (no CBMC)"""
    if not res.get("playback"):
        return None
    test = res["playback"]
    tm = re.search(r"fn (kani_concrete_playback_\w+)", test)
    if not tm:
        return None
    tname = tm.group(1)
    # find the file that holds this harness
    target = None
    for m in prop.MODULES:
        src = expand_chunks(open(os.path.join(VERIF, m.harness)).read())
        if re.search(r"fn\s+" + re.escape(h.name) + r"\s*\(", src) or (target is None and re.search(r"\b" + re.escape(h.name) + r"\b", src)):
            target = m
    if target is None:
        return None
    path = os.path.join(scratch, target.file)
    text = open(path).read().rstrip("\n")
    assert text.endswith("}")
    text = text[:-1] + "\n" + test + "\n}\n"
    open(path, "w").write(text)
    cmd = ["cargo", "kani", "playback", "-Z", "concrete-playback", "--features", FEATURES[h.crate], "--", tname]
    try:
        p = subprocess.run(cmd, cwd=crate_dir(scratch, h.crate), env=ENV, stdout=subprocess.PIPE, stderr=subprocess.STDOUT,
                           text=True, timeout=900)
        out = p.stdout
        failed = p.returncode != 0 and ("panicked" in out or "FAILED" in out or "SIG" in out or "signal" in out)
        built = "error: could not compile" not in out and "error[" not in out
    except subprocess.TimeoutExpired:
        out, failed, built = "native replay timed out", False, False
    return dict(cmd=" ".join(cmd), test=test, test_name=tname, fails_natively=bool(failed and built),
                output_tail="\n".join(out.splitlines()[-40:]))


# ----------------------------------------------------------------------------- known findings
def load_findings():
    p = os.path.join(VERIF, "known_findings.json")
    if not os.path.exists(p):
        return {"open": [], "fixed": []}
    return json.load(open(p))


# ----------------------------------------------------------------------------- main
def main(argv):
    import argparse
    ap = argparse.ArgumentParser()
    ap.add_argument("prop")
    ap.add_argument("--tier", default=os.environ.get("VERIF_TIER", "quick"), choices=["quick", "thorough"])
    ap.add_argument("--only", default=None, help="regex on harness names (development)")
    ap.add_argument("--keep", action="store_true")
    ap.add_argument("--jobs", type=int, default=int(os.environ.get("VERIF_JOBS", "16")))
    ap.add_argument("--replay", default=None)
    a = ap.parse_args(argv)
    pid = a.prop
    seed = int(os.environ.get("VERIF_SEED", "0") or 0)
    prop = load_prop(pid)
    t0 = time.time()
    if a.replay:
        return do_replay(pid, prop, a.replay)
    harnesses = [h for h in prop.HARNESSES if a.tier == "thorough" or h.tier == "quick"]
    if a.only:
        harnesses = [h for h in harnesses if re.search(a.only, h.name)]
    if getattr(prop, "JOBS", None) and "VERIF_JOBS" not in os.environ:
        a.jobs = min(a.jobs, prop.JOBS)
    scratch = make_scratch(pid)
    # a run on a patched copy (VERIF_REPO set, e.g. lib/seedrun.sh) must not overwrite the logs / evidence of the real tree
    logdir = os.path.join(VERIF, "logs", pid if not _side_run() else "_mutated_" + pid)
    shutil.rmtree(logdir, ignore_errors=True)
    os.makedirs(logdir, exist_ok=True)
    rc = 2
    try:
        rc = run(pid, prop, a, harnesses, scratch, logdir, seed, t0)
    except Undecided as e:
        print(f"UNDECIDED property={pid}: {e}")
        rc = 2
    except Exception as e:      # a tool / driver error is never an alarm
        import traceback
        traceback.print_exc()
        print(f"UNDECIDED property={pid}: internal error of the driver: {e!r}")
        rc = 2
    finally:
        if not a.keep:
            shutil.rmtree(scratch, ignore_errors=True)
    return rc


def run(pid, prop, a, harnesses, scratch, logdir, seed, t0):
    injected = inject(scratch, prop, pid)
    assumptions_scan = scan_assumptions(injected)
    extra = []
    if hasattr(prop, "pre_run"):
        extra = prop.pre_run(scratch, a.tier, logdir) or []      # e.g. the Verus unit of C20
    cg = {}
    results = {}
    groups = {}
    for h in harnesses:
        groups.setdefault(group_key(h), []).append(h)
    glist = sorted(groups.items(), key=lambda kv: -len(kv[1]))
    # the big group gets most of the cores; small (unwindset) groups run beside it
    with cf.ThreadPoolExecutor(max_workers=max(1, min(len(glist), 6))) as ex:
        futs = {}
        for gi, (k, hs) in enumerate(glist):
            j = a.jobs if gi == 0 else max(1, min(len(hs), getattr(prop, "GROUP_JOBS", {}).get(k[0], a.jobs // 4)))
            futs[ex.submit(run_group, scratch, k[0], hs, logdir, j, gi)] = (gi, hs)
        for f in cf.as_completed(futs):
            gi, hs = futs[f]
            rs, wall = f.result()
            cg[f"group{gi}:{hs[0].crate}:{len(hs)} harnesses"] = round(wall, 1)
            results.update(rs)
    for h in harnesses:
        st, _ = classify(h, results[h.name])
        print(f"  [{st:9}] {h.name}  ({results[h.name].get('verification_time_s')}s)", flush=True)
    findings = load_findings()
    open_f = {f["id"]: f for f in findings.get("open", []) if f["property"] == pid}
    violations, undecided, known = [], [], []
    for h in harnesses:
        res = results[h.name]
        st, det = classify(h, res)
        res["state"] = st
        if h.finding:
            # finding harness: expected to FAIL while the defect is open
            if h.finding not in open_f:
                raise Undecided(f"harness {h.name} refers to finding {h.finding} which is not listed in known_findings.json")
            if st == "violation":
                known.append((h, open_f[h.finding], det))
                res["state"] = "known-finding"
            elif st == "ok":
                res["state"] = "ok"     # defect repaired: no line printed
            else:
                undecided.append((h, det))
            continue
        if st == "violation":
            violations.append((h, det))
        elif st == "undecided":
            undecided.append((h, det))
    for x in extra:
        if x["state"] == "violation":
            violations.append((x["h"], x["details"]))
        elif x["state"] == "undecided":
            undecided.append((x["h"], x["details"]))
    # --- report
    rc = 0
    for h, f, det in known:
        print(f"KNOWN-FINDING: property={pid} {f['what']}")
    os.makedirs(os.path.join(VERIF, "replay"), exist_ok=True)
    # one VIOLATION line per harness family (chunks `_kNN` of one contract are one family); native replay for the first few
    fam_done, replays, budget = {}, {}, 5
    for h, det in violations:
        fam = re.sub(r"_k\d+$", "", h.name)
        if fam in fam_done:
            continue
        res = results.get(h.name)
        cex = None
        if res is None:
            x = [x for x in extra if x["h"] is h][0]
            cex = replays.get(x.get("cex_harness"))
        rp = write_replay(pid, prop, h, det, res, scratch, do_native=budget > 0, borrowed=cex)
        budget -= 1
        fam_done[fam] = rp
        replays[h.name] = rp
        also = [g.name for g, _ in violations if g is not h and re.sub(r"_k\d+$", "", g.name) == fam]
        suffix = "" if rp["confirmed"] else " no-failing-input-found"
        print(f"VIOLATION property={pid} replay={rp['path']}{suffix}" )
        if also:
            print(f"  (same obligation also fails in: {', '.join(also)})")
        rc = 1
    write_evidence(pid, prop, a.tier, seed, harnesses, results, extra, assumptions_scan, cg, len(violations), time.time() - t0, known, undecided)
    if rc == 0 and undecided:
        for h, det in undecided:
            print(f"UNDECIDED property={pid} harness={h.name}: {det}")
        rc = 2
    if rc == 0:
        n = sum(len(results[h.name]["checks"]) for h in harnesses) + sum(x.get("obligations", 0) for x in extra)
        print(f"OK property={pid} tier={a.tier} harnesses={len(harnesses) + len(extra)} obligations={n} wall={time.time() - t0:.0f}s")
    return rc


def write_replay(pid, prop, h, det, res, scratch, do_native=True, borrowed=None):
    first = det[0] if isinstance(det, list) and det else {"id": "obligation", "description": str(det), "location": ""}
    name = re.sub(r"[^A-Za-z0-9_.-]", "_", f"{pid}-{h.name}-{first['id']}")[:150]
    rdir = os.path.join(VERIF, "replay") if not _side_run() else os.path.join(VERIF, "logs", "_mutated_" + pid, "replay")
    os.makedirs(rdir, exist_ok=True)
    path = os.path.join(rdir, name + ".json")
    native = None
    if borrowed is not None:
        native = dict(borrowed_from=borrowed["path"], fails_natively=borrowed["confirmed"],
                      note="this verifier gives no model; the failing input comes from the bounded cross-check harness of the same clause")
    if res is not None and do_native:
        try:
            if not res.get("playback"):
                again = run_single_with_playback(scratch, h, os.path.join(VERIF, "logs", pid if not _side_run() else "_mutated_" + pid))
                res["playback"] = again.get("playback")
            native = native_replay(scratch, h, res, prop, pid)
        except Exception as e:  # replay is best effort; the violation is reported regardless
            native = dict(error=repr(e), fails_natively=False)
    rp = dict(property=pid, harness=h.name, functions_under_contract=h.functions, contract_clauses=h.clauses, bound=h.bound,
              failed_obligations=det if isinstance(det, list) else [first],
              verifier=dict(tool="Kani 0.68 / CBMC 6.11" if res is not None else "Verus", cmd=res["cmd"] if res else "",
                            output_tail="\n".join(open(res["log"]).read().splitlines()[-60:]) if res else str(det)),
              counterexample=dict(playback_test=res.get("playback") if res else None),
              native_replay=native,
              how_to_replay=f"bin/check {pid} --replay {path}")
    json.dump(rp, open(path, "w"), indent=1)
    return dict(path=path, confirmed=bool(native and native.get("fails_natively")))


def do_replay(pid, prop, path):
    rp = json.load(open(path))
    hname = rp["harness"]
    hs = [h for h in prop.HARNESSES if h.name == hname]
    if not hs or not rp.get("counterexample", {}).get("playback_test"):
        print("replay file carries no concrete input (no-failing-input-found); re-run the check instead")
        return 2
    scratch = make_scratch(pid + "-replay")
    try:
        inject(scratch, prop, pid)
        native = native_replay(scratch, hs[0], dict(playback=rp["counterexample"]["playback_test"]), prop, pid)
        print(native["output_tail"])
        print("REPLAY: " + ("fails natively on the current tree" if native["fails_natively"] else "does not fail on the current tree"))
        return 1 if native["fails_natively"] else 0
    finally:
        shutil.rmtree(scratch, ignore_errors=True)


def is_clause(c):
    d = c["description"]
    return ".cover." in c["id"] or d.startswith('"') or d.startswith("|") or "__verif_" in d


def write_evidence(pid, prop, tier, seed, harnesses, results, extra, scan, cg, nviol, wall, known, undecided):
    per = []
    obligations = discharged = 0
    nontrivial = set()
    samples = []
    solver_time = 0.0
    all_proved = True
    for h in harnesses:
        r = results[h.name]
        cs = r["checks"]
        ok = [c for c in cs if c["status"] in ("SUCCESS", "SATISFIED")]
        obligations += len(cs)
        discharged += len(ok)
        # "non-trivial" = contract clauses and lemma assertions (messages written in the harness, requires/ensures expressions, covers),
        # not the generated safety checks
        for c in cs:
            if is_clause(c):
                nontrivial.add((h.name, c["description"]))
        if h.strength != "proved" and not h.crosscheck:
            all_proved = False
        solver_time += r.get("verification_time_s") or 0
        per.append(dict(harness=h.name, state=r.get("state"), functions_under_contract=h.functions, contract_clauses=h.clauses,
                        strength=h.strength, bound=h.bound, checks_generated=len(cs), checks_discharged=len(ok),
                        cover_goals=len([c for c in cs if ".cover." in c["id"]]),
                        backend="CBMC 6.11 via Kani 0.68" + (", " + r["solver"] if r.get("solver") else ""),
                        verification_time_s=r.get("verification_time_s"), wall_s=r.get("wall_s"), stubs=r.get("stubs"),
                        unwindset=h.unwindset or None))
        for c in cs:
            if len(samples) < 8 and is_clause(c) and len([s for s in samples if s["harness"] == h.name]) < 1 and \
                    not any(s["clause"] == c["description"] for s in samples):
                samples.append(dict(harness=h.name, obligation=c["id"], clause=c["description"], status=c["status"], location=c["location"]))
    for x in extra:
        obligations += x.get("obligations", 0)
        discharged += x.get("discharged", 0)
        per.append(x["evidence"])
        samples += x.get("samples", [])
        solver_time += x.get("solver_time_s", 0)
        for s in x.get("nontrivial", []):
            nontrivial.add((x["evidence"]["harness"], s))
        if x.get("strength") != "proved":
            all_proved = False
    level = getattr(prop, "LEVEL", None) or ("proof" if all_proved else "model_checking")
    if level == "proof" and not all_proved:
        level = "model_checking"
    trusted = list(getattr(prop, "TRUSTED", [])) + [
        "Kani 0.68 / CBMC 6.11 / CaDiCaL; Kani's model of the Rust standard library (allocation never fails)",
        "termination is not proved (bounded harnesses: only inside their unwinding bounds, unwinding assertions on)",
    ]
    cov = dict(
        obligations=obligations, discharged=discharged,
        evaluations=obligations, distinct_nontrivial=len(nontrivial),
        rule="obligations = every check CBMC generated for the harnesses of this tier (contract clauses, lemma assertions, cover goals, "
             "and the automatic safety checks: pointer validity, bounds, overflow, unwinding); distinct_nontrivial = distinct "
             "(harness, clause text) pairs among the contract clauses / lemma assertions / cover goals only (generated safety checks excluded)",
        checker_cmd="cargo kani --features <f> -Z function-contracts -Z stubbing -Z concrete-playback --harness <h> [--cbmc-args --unwindset ..] "
                    "on a scratch copy of /repo with contracts injected by /verif/lib/vf.py" + (getattr(prop, "CHECKER_EXTRA", "")),
        trusted_base=trusted,
        samples=samples or [dict(note="no assertion-type obligation in this run")],
        functions_under_contract=sorted(set(f for h in harnesses for f in h.functions) | set(f for x in extra for f in x["evidence"].get("functions_under_contract", []))),
        harnesses=per,
        solver_time_s=round(solver_time, 1),
        codegen_s=cg,
        proved_full_domain=[h.name for h in harnesses if h.strength == "proved" and results[h.name].get("state") == "ok"] +
                           [x["evidence"]["harness"] for x in extra if x.get("strength") == "proved" and x["state"] == "ok"],
        bounded=[dict(harness=h.name, bound=h.bound) for h in harnesses if h.strength != "proved"],
        known_findings_reported=[f["id"] for _, f, _ in known],
        undecided=[dict(harness=h.name, reason=str(d)[:300]) for h, d in undecided],
        exhaustive=False,
    )
    ev = dict(property_id=pid, tier=tier, seed=seed, level=level, coverage=cov,
              assumptions=list(getattr(prop, "ASSUMPTIONS", [])) + ["scan of injected text: " + s for s in scan] +
                          [f"mechanical extraction: {e['lines']} lines of {e['file']} between `{e['from_marker']}` and `{e['to_marker']}` (sha256 {e['sha256'][:16]}) wrapped verbatim into a harness function" for e in EXTRACTED],
              wall_s=round(wall, 1), violations=nviol)
    evdir = os.path.join(VERIF, "evidence") if not _side_run() else os.path.join(VERIF, "logs", "_mutated_" + pid)
    os.makedirs(evdir, exist_ok=True)
    json.dump(ev, open(os.path.join(evdir, pid + ".json"), "w"), indent=1)


if __name__ == "__main__":
    sys.exit(main(sys.argv[1:]))
