#!/bin/sh
# usage: lib/profile.sh <PROP> <harness> <seconds> [extra cargo-kani args...]   -- loop-unwinding profile of one harness (development aid)
P="$1"; Hn="$2"; T="$3"; shift 3
cd /verif
VERIF_JOBS=1 timeout 60 bin/check "$P" --keep --only "^$Hn\$" >/dev/null 2>&1
S=$(ls -dt /var/tmp/ohkami-verif/$P.* | head -1)
CR=ohkami; FE=rt_tokio,sse
grep -q "$Hn" harness/*/*.rs && true
case "$(grep -l "crate=\"ohkami_lib\"" props/$P.py)" in *$P*) CR=ohkami_lib; FE=stream;; esac
[ -n "$CRATE" ] && CR=$CRATE && [ "$CR" = ohkami ] && FE=rt_tokio,sse
cd $S/$CR && CARGO_NET_OFFLINE=true timeout $T cargo kani --features $FE -Z function-contracts -Z stubbing -Z concrete-playback -Z unstable-options --no-assertion-reach-checks --harness $Hn --output-format old "$@" --cbmc-args --verbosity 9 $UW > /var/tmp/profile_$Hn.log 2>&1
grep "Unwinding loop" /var/tmp/profile_$Hn.log | sed 's/iteration.*//' | sort | uniq -c | sort -rn | head -12 | cut -c1-260
grep -c "Unwinding recursion" /var/tmp/profile_$Hn.log
tail -3 /var/tmp/profile_$Hn.log | cut -c1-200
rm -rf $S
