#!/usr/bin/env python3
"""
The one Verus unit (DESIGN §3.2a): value correctness of `ohkami_lib::num::itoa` for ALL usize.

Every run:  rustc expands the real crate (-Zunpretty=expanded)  ->  the item `pub fn itoa` is cut out by brace matching
->  token-level rules E1..E6, each asserting its expected match count  ->  contract prepended  ->  `verus`.

What the rules DROP (and who covers it): the raw-pointer write into spare capacity and `String::from_utf8_unchecked`
(Kani harness c20_itoa_memory_safe_all_usize on the unmodified function + the `all_digits` postcondition here).
Everything else -- the 19 nested comparisons, divisions, subtractions, digit bytes -- is token-identical to rustc's expansion.
"""
import hashlib
import json
import os
import re
import subprocess
import time

PRELUDE = r'''use vstd::prelude::*;
verus! {
global size_of usize == 8;

/// value of a big-endian decimal digit string
pub open spec fn dec_value(s: Seq<u8>) -> nat decreases s.len() {
    if s.len() == 0 { 0 } else { dec_value(s.drop_last()) * 10 + (s.last() - 48) as nat }
}
pub open spec fn all_digits(s: Seq<u8>) -> bool { forall|i: int| 0 <= i < s.len() ==> 48 <= #[trigger] s[i] <= 57 }

// E1 helper: the safe equivalent of the closure `push_unchecked` (ptr::write at len; set_len(len+1))
fn push_digit(buf: &mut Vec<u8>, b: u8)
    requires 48 <= b <= 57, all_digits(old(buf)@), old(buf)@.len() < 20,
    ensures all_digits(final(buf)@), final(buf)@.len() == old(buf)@.len() + 1,
            dec_value(final(buf)@) == dec_value(old(buf)@) * 10 + (b - 48) as nat,
            final(buf)@ == old(buf)@.push(b),
{
    buf.push(b);
    assert(buf@.drop_last() =~= old(buf)@);
}

'''

CONTRACT = '''
    ensures all_digits(buf@), buf@.len() >= 1, buf@.len() <= 20,
            dec_value(buf@) == n0 as nat,
            buf@.len() == 1 || buf@[0] != 48u8,
'''

RULES = [
    "E1 closure `let mut push_unchecked = |byte| {..};` and the inert `macro_rules! unroll {..}` removed; calls push_unchecked(X) -> push_digit(&mut buf, X)",
    "E2 `10_usize.pow(K)` with literal K -> the literal 10^K",
    "E3 `const MAX: usize = usize::ilog10(usize::MAX) as _;` -> `const MAX: usize = 19;` (value pinned by the source's own `const _: [(); 19] = [(); MAX];`, which is kept out as the static assert it is)",
    "E4 tail `unsafe { String::from_utf8_unchecked(buf) }` -> `buf`; return type String -> (buf: Vec<u8>)",
    "E5 `global size_of usize == 8;`, spec functions and the contract prepended; parameter `mut n: usize` -> `n0: usize` + `let mut n = n0;`",
    "E6 byte literal b'0' -> 48u8; `Vec::<u8>::with_capacity` kept",
]


class ExtractError(Exception):
    pass


def match_brace(text, i):
    """index just after the brace block starting at text[i] == '{'"""
    assert text[i] == "{"
    depth = 0
    for j in range(i, len(text)):
        if text[j] == "{":
            depth += 1
        elif text[j] == "}":
            depth -= 1
            if depth == 0:
                return j + 1
    raise ExtractError("unbalanced braces")


def subn_exact(pattern, repl, text, count, what, flags=0):
    new, n = re.subn(pattern, repl, text, flags=flags)
    if n != count:
        raise ExtractError(f"extraction rule did not apply: {what}: expected {count} matches, got {n}")
    return new


def extract(expanded):
    m = re.search(r"pub fn itoa\(mut n: usize\) -> String \{", expanded)
    if not m:
        raise ExtractError("lost anchor: `pub fn itoa(mut n: usize) -> String` not found in the expanded crate")
    start = m.start()
    end = match_brace(expanded, m.end() - 1)
    item = expanded[start:end]
    sha = hashlib.sha256(item.encode()).hexdigest()
    body = item
    # E5 header
    body = subn_exact(r"pub fn itoa\(mut n: usize\) -> String \{", "fn itoa(n0: usize) -> (buf: Vec<u8>)" + CONTRACT + "{\n    let mut n = n0;", body, 1, "E4/E5 header")
    # E3
    body = subn_exact(r"const MAX: usize = usize::ilog10\(usize::MAX\) as _;", "", body, 1, "E3 MAX")
    body = subn_exact(r"const _: \[\(\); 19\] = \[\(\); MAX\];", "", body, 1, "E3 static assert (pins MAX == 19)")
    # E1 closure
    cm = re.search(r"let mut push_unchecked =\s*\|byte\|\s*\{", body)
    if not cm:
        raise ExtractError("extraction rule did not apply: E1 closure")
    cend = match_brace(body, cm.end() - 1)
    closure = body[cm.start():cend]
    for needle in ["std::ptr::write(buf.as_mut_ptr().add(len), byte)", "buf.set_len(len + 1)", "let len = buf.len()"]:
        if needle not in closure:
            raise ExtractError(f"extraction rule did not apply: E1 closure body changed (missing `{needle}`)")
    rest = body[cend:]
    if not rest.lstrip().startswith(";"):
        raise ExtractError("extraction rule did not apply: E1 closure terminator")
    body = body[:cm.start()] + rest.lstrip()[1:]
    mm = re.search(r"macro_rules! unroll\s*\{", body)
    if not mm:
        raise ExtractError("extraction rule did not apply: E1 macro_rules")
    mend = match_brace(body, mm.end() - 1)
    body = body[:mm.start()] + body[mend:]
    body = subn_exact(r"push_unchecked\(", "push_digit(&mut buf, ", body, 20, "E1 calls")
    # E2
    def powrep(mo):
        k = int(mo.group(1))
        if not 0 <= k <= 19:
            raise ExtractError("E2 exponent out of range")
        return f"{10 ** k}usize"
    body = subn_exact(r"10_usize\.pow\((\d+)\)", powrep, body, 57, "E2 pow")
    # E4 tail
    body = subn_exact(r"unsafe \{ String::from_utf8_unchecked\(buf\) \}", "buf", body, 1, "E4 tail")
    # E6
    body = subn_exact(r"b'0'", "48u8", body, 20, "E6 byte literal")
    body = subn_exact(r"Vec::<u8>::with_capacity\(1 \+ MAX\)", "Vec::<u8>::with_capacity(1 + MAX)", body, 1, "with_capacity kept")
    src = PRELUDE + "const MAX: usize = 19;\n\n" + body + "\n\n} // verus!\nfn main() {}\n"
    return src, sha, item


def run(scratch, logdir, h_cls):
    """returns the `extra` record consumed by vf.run"""
    t0 = time.time()
    name = "c20_itoa_value_verus"
    h = h_cls(name, "ohkami_lib", ["num::itoa (arithmetic skeleton, mechanically extracted)"],
              ["ensures every byte is an ASCII digit", "1 <= len <= 20", "decimal value of the bytes == n", "no leading zero unless the string is \"0\""],
              strength="proved")
    ev = dict(harness=name, functions_under_contract=h.functions, contract_clauses=h.clauses, strength="proved",
              bound="full input domain (all usize, 64-bit)", backend="Verus 0.2026.09.13 / Z3", extraction_rules=RULES)

    def undecided(msg):
        ev["state"] = "undecided"
        return dict(h=h, state="undecided", details=msg, evidence=ev, strength="proved")

    tdir = os.path.join(scratch, "target-expand")
    try:
        p = subprocess.run(["cargo", "+nightly", "rustc", "--offline", "--lib", "--", "-Zunpretty=expanded"],
                           cwd=os.path.join(scratch, "ohkami_lib"), env=dict(os.environ, CARGO_TARGET_DIR=tdir, CARGO_NET_OFFLINE="true"),
                           stdout=subprocess.PIPE, stderr=subprocess.PIPE, text=True, timeout=900)
    except subprocess.TimeoutExpired:
        return undecided("rustc expansion timed out")
    if p.returncode != 0:
        return undecided("rustc expansion failed: " + p.stderr[-500:])
    try:
        src, sha, item = extract(p.stdout)
    except ExtractError as e:
        return undecided(str(e))
    vfile = os.path.join(logdir, "itoa_extracted.rs")
    open(vfile, "w").write(src)
    ev["expanded_item_sha256"] = sha
    cmd = ["verus", vfile, "--rlimit", "400", "--output-json", "--time"]
    try:
        v = subprocess.run(cmd, stdout=subprocess.PIPE, stderr=subprocess.PIPE, text=True, timeout=900, cwd=logdir)
    except subprocess.TimeoutExpired:
        return undecided("verus timed out")
    open(os.path.join(logdir, name + ".log"), "w").write("$ " + " ".join(cmd) + "\n" + v.stdout + "\n" + v.stderr)
    try:
        js = json.loads(v.stdout[v.stdout.index("{"):])
    except Exception:
        return undecided("verus produced no JSON: " + (v.stderr or v.stdout)[-400:])
    vr = js.get("verification-results", {})
    verified, errors = vr.get("verified", 0), vr.get("errors", 0)
    smt = js.get("times-ms", {}).get("smt", {}).get("total", 0) / 1000.0 if isinstance(js.get("times-ms", {}).get("smt"), dict) else 0
    ev.update(verus_verified=verified, verus_errors=errors, checker_cmd=" ".join(cmd), solver_time_s=smt, wall_s=round(time.time() - t0, 1),
              verus_times_ms=js.get("times-ms", {}).get("total"))
    rec = dict(h=h, evidence=ev, strength="proved", obligations=verified + errors, discharged=verified, solver_time_s=smt,
               nontrivial=h.clauses,
               samples=[dict(harness=name, obligation="itoa postcondition", clause="dec_value(buf@) == n0 && all_digits(buf@) && canonical", status="SUCCESS" if errors == 0 else "FAILURE")])
    if vr.get("encountered-vir-error") or (verified == 0 and errors == 0):
        msg = (v.stderr or "")[-600:]
        return undecided("verus rejected the extracted text (tool limit, not a refutation): " + msg)
    if errors > 0:
        # a failed Verus obligation: postcondition not proved.  rlimit / timeout => undecided; otherwise report as violation w/o input
        err = v.stderr or ""
        if "rlimit" in err.lower() or "resource limit" in err.lower() or "timed out" in err.lower():
            return undecided("verus resource limit: " + err[-400:])
        ev["state"] = "violation"
        rec.update(state="violation", cex_harness="c20_itoa_value_below_100000", details=[dict(id="verus.itoa.postcondition", description="Verus could not prove the postcondition of the extracted itoa: " + _first_error(err), location="ohkami_lib/src/num.rs (itoa)")])
        rec["verus_stderr"] = err[-3000:]
        return rec
    ev["state"] = "ok"
    rec["state"] = "ok"
    return rec


def _first_error(err):
    m = re.search(r"error: (.*)", err)
    return m.group(1)[:200] if m else "see log"
