#!/usr/bin/env python3
"""regenerates /verif/MANIFEST.json from the table below (keeps it schema-valid at all times)"""
import json, os
VERIF = os.path.dirname(os.path.dirname(os.path.abspath(__file__)))

CLAIMED = {
    "C20": dict(
        category="proof",
        text="Every obligation is discharged for the full input domain: all timestamps 0..=253402300799 (split into 16 adjacent chunks that a lemma proves "
             "to tile the domain) and all usize. Kani/CBMC contracts on the real ohkami_lib::time functions (from_days and from_unix_timestamp as attribute "
             "contracts, composed with stub_verified), a top-level lemma that the printed string parses back to the instant, hexized_bytes for all usize, "
             "itoa memory safety for all usize on the real function, and itoa's value clause by Verus on the arithmetic skeleton extracted mechanically "
             "from rustc's macro expansion on every run.",
        design_ref="DESIGN.md §4 C20",
        note="Trusted: Kani 0.68/CBMC 6.11/CaDiCaL, Verus/Z3, rustc's macro expander and extraction rules E1-E6 for itoa, the spec functions in harness/C20 "
             "(leap rule, forward day-number formula, month lengths, RFC 9110 name tables). Termination not proved (all loops have constant trip counts, unwinding assertions on).",
        technique="Kani function contracts (proof_for_contract + stub_verified) and full-domain harness contracts on the real code; Verus postcondition on mechanically extracted itoa",
    ),
}

CLAIMED["C03"] = dict(
    category="model_checking",
    text="Bounded. (1) The header index map: every operation (new/get/get_mut/set/delete/clear/iter/into_iter) is verified once from an ARBITRARY well-formed state "
         "(all index bytes and entries symbolic; one harness per entry count) against an abstract view slot->Option<value> with a whole-view frame and the invariant "
         "'no stale entry' -- an induction over operation histories of any length, instantiated at N=4, V=u8. (2) The response header block: all 39 histories of length <= 3 "
         "over {insert, append, remove} on one standard and one custom key with a live background header, symbolic value contents: after every step size == 2 + sum(name+2+value+2) "
         "over the view, the view is the latest value, and the real serializer writes exactly `size` bytes, all inside the reserved allocation (CBMC pointer checks on the raw "
         "copy_nonoverlapping), with every live header exactly once. (3) complete() for 204, set_payload/set_text/drop_content state contracts.",
    design_ref="DESIGN.md §4 C03",
    note="Bounded in N (4 instead of 47), history length (3), value lengths (0..2). The serialization block of Response::send's Payload branch is under contract only in the thorough tier (extracted verbatim; one body length; 315 s / ~20 GB); its await points, the None / WebSocket branches, Set-Cookie lines are not. "
         "Trusted: Kani/CBMC, ohkami_lib::map::TupleMap executed not specified. A genuine defect found by these obligations was repaired (fix: 7ef1524).",
    technique="Kani harness contracts: representation invariant + abstract view per operation from an arbitrary state (inductive), enumerated histories with symbolic contents for the header block",
)

CLAIMED["C01"] = dict(
    category="model_checking",
    text="Bounded, except split_next_section, whose contract is additionally discharged by Verus for slices of EVERY length on the text cut from util.rs on each run (safe-slice rewriting rules S1-S8, DESIGN 10.1). Per-step matching contracts on the real router code: split_next_section (attribute contract, proof_for_contract), Pattern::take_through for Static "
         "(matches iff the identical whole segment(s), not a byte prefix) and Param (non-empty segment, exactly that segment pushed as param), Path::init_with_request_bytes "
         "(one trailing slash ignored), each for all byte strings up to 8 bytes; and Node::search_target on three concrete final trees (static+param siblings, a compressed chain, "
         "two nested params with a static alternative) for EVERY request path up to 8 bytes against the segment-wise reference (target node, hit/miss, captured params). Router::handle over six one-route trees with distinct handlers: each of the 7 methods on a registered and on an "
         "unregistered path runs the handler of that method's tree (HEAD: the GET handler, answered without a body but with its headers); no route => 404 from the catch proc.",
    design_ref="DESIGN.md §4 C01, §9.9, §10.1",
    note="Bounded by path length 8 and by the three tree shapes. Not under contract: registration (base.rs), From<base::Node> (compression, child sort), merge of nested Ohkamis, "
         "paths with empty segments (safety only). A genuine defect found by these obligations was repaired (fix: 1cbecf7).",
    technique="Kani function contract (proof_for_contract) + harness contracts over symbolic byte strings; concrete trees with symbolic request paths; Verus requires/ensures/loop invariant on split_next_section (unbounded) extracted from the source each run",
)

CLAIMED["C07"] = dict(
    category="model_checking",
    text="Bounded. Harness contracts on the macro-generated trait methods <int as FromParam>::from_param for all ten integer types: for EVERY ASCII string of each length up to "
         "digits(MAX)+2 the result is Ok(v) only if the whole string is an in-range integer literal of that type with value v (independent reference grammar), every "
         "'-'?digit+ in-range literal is accepted, no overflow or panic (quick: 8/16-bit types, thorough: all). String/Cow/&str params pass the decoded segment through "
         "(&str refuses decoded input); Option<FR> is None only when the inner extractor reports absence and propagates inner errors. The body media-type gate (<B: FromBody> as FromRequest) through a probe extractor: the "
         "decoder runs, on exactly the payload bytes, iff the Content-Type (0..6 symbolic printable bytes, or absent) starts with the extractor's WHOLE media type and a payload is present; otherwise the item is absent.",
    design_ref="DESIGN.md §4 C07, §9.7",
    note="Bounded by string length. Not under contract: the macro-generated IntoHandler impls (handler runs only if every extraction is Ok), "
         "JSON (serde_json); decoders are C08-C10. A genuine defect found by these obligations was repaired (fix: a0d3612).",
    technique="Kani harness contracts over all strings of bounded length against a reference grammar",
)

CLAIMED["C08"] = dict(
    category="model_checking",
    text="Bounded. Method-level totality contracts: every deserialize_* entry point of the URL-encoded deserializer (bool, integer widths, char, str, String, option, unit, "
         "seq/tuple, ignored, enum variant, map key/value steps) is called through serde's own primitive impls on an ARBITRARY cursor (every input of each length 0..4, both parsing "
         "sides): it returns Ok or Err with CBMC's generated obligations discharged (no panic, no unwrap on Err/None, no overflow, every from_raw_parts inside the input), the cursor "
         "stays a suffix of the input, yielded strings are valid UTF-8 (independent validator) and borrowed strings lie inside the input. Cookie valid::name / valid::value for every "
         "input up to 5 bytes plus the escape template %XY. ohkami_lib's own percent_decode / percent_decode_utf8 wrappers (and the real percent-encoding crate under them) agree with the "
         "reference RFC 3986 decoder on 16 enumerated concrete inputs (the assumed contract used by the other harnesses, checked).",
    design_ref="DESIGN.md §4 C08, §9.7",
    note="Bounded by input length (<= 4-5 bytes). percent-encoding crate replaced by an assumed contract (reference decoder); serde visitors executed, not specified; floats excluded; "
         "derived Deserialize glue, multipart parser, Set-Cookie parsing and QueryParams::iter are not under contract in this check (multipart: C10). "
         "Two genuine defects found by these obligations were repaired (fix: 019e014, c84dc34).",
    technique="Kani harness contracts per deserializer method over all short inputs; CBMC-generated safety obligations + UTF-8 / sub-slice postconditions; dependency stubbed by assumed contract",
)

CLAIMED["C02"] = dict(
    category="model_checking",
    text="Bounded, piece contracts only. Method::from_bytes (Some(m) iff the token is exactly a method name, all tokens <= 8 bytes); request Header::from_bytes (a recognised name equals "
         "the standard name up to ASCII case for all names <= 12 bytes; canonical and all-lowercase spelling of all 46 headers are recognised; the case-insensitivity clause for every case "
         "variant of Content-Length is evaluated and is a KNOWN FINDING); repeated standard headers joined in order with `, `; Request::read_payload returns exactly the announced body bytes for "
         "every split between bytes that arrived with the head and bytes still to come (shared with C06). The synchronous request-line / header-block parsing of Request::read, extracted VERBATIM on every run "
         "(//@extract), on 17 enumerated concrete heads: 5 well-formed (method, path with one trailing slash ignored, query, header values, Content-Length, bytes following the head as the wire denotes) and 12 malformed "
         "(unknown method closes the connection; other version, missing version, bad target, header without `: `, unterminated head, target or query running to the end of the input, Content-Length `1x` / 23 digits / `-1`: an error response, never a panic).",
    design_ref="DESIGN.md §4 C02, §9.8",
    note="The head parsing is decided on enumerated concrete heads only (symbolic heads and the whole async read do not get through CBMC, DESIGN §2); dropped by the extraction: the first stream.read, read_payload's await (C06) and the PAYLOAD_LIMIT match; QueryParams::iter is under contract in C09. Known finding KF-C02-header-case (open). Genuine defects were repaired (fix: 14e1cdc; f511a14 unwrap on a target running to the end of the input; af1541e unchecked Content-Length fold).",
    technique="Kani harness contracts over all short byte strings / all case masks; scripted AsyncRead for read_payload",
)
CLAIMED["C05"] = dict(
    category="model_checking",
    text="Bounded. Frame contract of Request::clear on the reused request object: from every state of an enumerated family of shapes (0-1 standard header, a repeated header, a custom header, "
         "an owned payload, a context entry; contents symbolic; buffer holding arbitrary bytes of the earlier request) the state after clear() shows no standard header (all 46 slots), no custom "
         "header, no payload, no context entry, and a header appended afterwards is the only header. With the repaired Request::read (parses only the bytes of the current read) this is the "
         "induction step for 'nothing from earlier requests is observable'.",
    design_ref="DESIGN.md §4 C05",
    note="Session::manage (clear -> read -> handle -> send loop, response order, Connection: close) is written against TcpStream and is read, not verified; whole-read non-interference is not "
         "a discharged obligation; path/query reset is plain assignment (not in the harness).",
    technique="Kani harness contract: frame condition of clear() over enumerated pre-state shapes with symbolic contents",
)
CLAIMED["C06"] = dict(
    category="model_checking",
    text="Bounded, body delivery only. Harness contract on the real async fn Request::read_payload with a scripted AsyncRead: for every body of 1..3 bytes (any values, 0x00 included), every split "
         "into bytes that arrived with the head (0..4, possibly followed by bytes of the next request) and bytes still to come, and chunk sizes 1 and 4, the result is exactly the body bytes, exactly "
         "the missing bytes are consumed from the stream, and nothing is awaited when the body has already arrived.",
    design_ref="DESIGN.md §4 C06",
    note="A split inside the request head and several requests in one read are OUTSIDE the claim (Request::read parses one read; no whole-read harness is affordable), so no finding is listed for them. "
         "A genuine defect found by these obligations was repaired (fix: 14e1cdc).",
    technique="Kani harness contract over enumerated (size, split, chunking) shapes with symbolic contents; scripted AsyncRead + hand-written block_on",
)

CLAIMED["C11"] = dict(
    category="model_checking",
    text="Bounded. Request side: the MapAccess steps of the real Cookie deserializer are driven over jar templates with symbolic contents: `N=VV` (quick tier) and `N=VV; M=W`, `N=\"VV\"; M=W` (thorough tier: 11-12 min each) "
         "(names any RFC 6265 token byte, values any cookie-octet except `%`, `=` included): every name and value decodes to what was sent, in order, double quotes stripped, nothing after the last "
         "cookie; and `n=%XY` for all 256 escapes decodes to the byte when it is ASCII and is an error otherwise. Cookie name/value validators for all short inputs are under contract in C08. Response side: SetCookieBuilder::build followed by SetCookie::from_raw on 7 enumerated CONCRETE values (plain, a literal percent escape `50%2Foff`, space and semicolon, double quotes, non-ASCII, base64 padding, empty) with Path, HttpOnly and SameSite=Lax: the emitted text is a single line `name=value *(\"; \" directive)` whose value consists of RFC 6265 cookie-octets only, and it parses back to the value given to the builder and exactly the directives given.",
    design_ref="DESIGN.md §4 C11, §8.2",
    note="NOT under a discharged contract: decoding into serde-derived structs (the derive glue does not get through CBMC); on the response side only enumerated concrete values are decided (the symbolic value shapes of harness/C11/setcookie.rs need more than 20 min each and are not registered), the byte_reader crate is executed, not specified. The request's cookie iterator util::iter_cookies is run on enumerated concrete jars only (plain cookies, an empty value, a value containing `=`); that it yields quoted / percent-encoded values raw is the open finding KF-C11-cookie-iterator-raw-values. A second genuine defect was repaired (fix: 22979b8, iterator dropped cookies whose value contains `=`). percent-encoding and core::str::from_utf8 replaced by assumed contracts. A genuine defect found by these "
         "obligations was repaired (fix: 730e713, `=` inside a cookie value).",
    technique="Kani harness contracts over jar templates with symbolic contents (round trip against the identity encoder)",
)

CLAIMED["C09"] = dict(
    category="model_checking",
    text="Bounded, method level. decode(encode(v)) == v through the real URLEncodedSerializer::serialize_* and URLEncodedDeserializer::deserialize_* methods in the value place: both "
         "booleans, Option<bool>, a derived newtype, all 128 ASCII chars (every reserved character; enumerated in 4 chunks), 8 non-ASCII chars of every UTF-8 length, integers of every width at "
         "their boundary values (enumerated concrete values: a symbolic integer through core's Display is out of reach), the empty string, two concrete sequences of booleans (lengths 2 and 3), "
         "three concrete pairs of strings containing `,` `&` `=` `%`; the request's query iterator QueryParams::iter (with the real percent-decoding wrapper) on 7 concrete query strings (escapes in keys and values, "
         "escaped `=`/`&`, empty values, malformed parts skipped). One open known finding (a sequence whose first element is the empty string loses it).",
    design_ref="DESIGN.md §9.2, §9.3",
    note="NOT under a discharged contract: the struct/map glue of serde-derived impls (field order, unknown extra fields), floats, string maps, symbolic strings of 1-2 bytes, "
         "symbolic string pairs, symbolic (bool, bool) sequences, unit enums and the `k=v&k=v` text-vs-RFC 3986 harnesses (written, harness/C09, but 8-27 GB / no answer in 15 min each: unregistered). percent-encoding crate and core::str::from_utf8 "
         "replaced by assumed contracts. Two genuine defects found by these obligations were repaired (fix: 7bec830 chars written raw, 41c3ccf sequences never decoded); KF-C09-empty-first-seq-element is open.",
    technique="Kani harness contracts: round trip through the real serializer and deserializer methods per field type (symbolic where CBMC can afford it, otherwise exhaustively enumerated small domains / boundary values)",
)
CLAIMED["C13"] = dict(
    category="model_checking",
    text="Bounded. BasicAuth::matches(u, p) == (u == username && p == password) byte for byte, for 12 shapes of configured/given lengths 0..3 with symbolic ASCII contents (longer, shorter, swapped and "
         "prefix-sharing strings are refused). <BasicAuth as FangAction>::fore and <[BasicAuth; 2] as FangAction>::fore over 20 shapes (Authorization absent / `Basic ..` / `Bearer ..` / `basic ..`; base64 "
         "decoding fails; decoded credential of 0..4 symbolic bytes; configured pair lengths (1,1) (1,2) (2,1) (0,1)): Ok(()) iff the value starts with `Basic `, decoding succeeded, and the text before the FIRST "
         "colon and the text after it equal a configured pair exactly; otherwise the result is 401 carrying `WWW-Authenticate: Basic ...`.",
    design_ref="DESIGN.md §9.2",
    note="base64 decoding (util::base64_decode_utf8) is an ASSUMED contract: the stub returns an error or an arbitrary ASCII string of the shape's length; the base64 crate is not verified. Credentials longer than "
         "4 bytes, non-ASCII credentials and that the fang is actually installed in front of the handler (fang composition, C04) are outside the claim.",
    technique="Kani harness contracts over enumerated shapes with symbolic contents against a reference decision procedure; dependency (base64) stubbed by an assumed contract",
)
CLAIMED["C14"] = dict(
    category="model_checking",
    text="Bounded, and relative to the list of methods registered for a path. <CORSProc as FangProc>::bite over 429 of the 512 configuration/request shapes (83 shapes that take the `Vary` append path together with further options need 10-30 GB each and are not registered; quick tier: 18 chosen so that every option takes both values "
         "under OPTIONS and under GET and every inner status occurs): every response carries Access-Control-Allow-Origin == configured origin, Access-Control-Allow-Credentials: true iff enabled on a non-wildcard "
         "origin (the builder refuses credentials on `*`), the configured exposed headers; an OPTIONS response additionally the configured max-age and the configured or echoed (3 symbolic bytes) request headers, "
         "and the inner 501 of a valid preflight becomes 200 without Content-Type/Content-Length while every other status passes through; a non-OPTIONS response gets none of the preflight-only headers and keeps "
         "status and body declaration. Handler::default_options_with(list): 404 without Access-Control-Request-Method; 501 (valid preflight) iff the requested token (3..7 symbolic printable bytes) is exactly a listed "
         "method, HEAD when GET is listed, or OPTIONS; otherwise 400; Access-Control-Allow-Methods is exactly the list (+HEAD with GET, +OPTIONS); plus 16 concrete tokens (12 look-alikes: substrings of the advertised list, the separator, case and padding variants). The configured max-age takes the values 600, 0, 1 and u32::MAX across the shapes.",
    design_ref="DESIGN.md §9.2",
    note="NOT under contract: WHICH methods are registered for a path (the list is assembled by router/base.rs at registration time through HashMap and leaked closures and handed to default_options_with), "
         "that the CORS fang wraps every response of its scope including 404s (fang scope, C04), Access-Control-Allow-Methods configured on the CORS value itself (the builder method is commented out upstream). "
         "core::str::from_utf8 replaced by an ASCII-only assumed contract (header bytes are ASCII by construction); util::unix_timestamp stubbed.",
    technique="Kani harness contracts over enumerated configuration/request shapes (compile-time constants) with symbolic header bytes; inner proc replaced by a stand-in",
)

CLAIMED["C17"] = dict(
    category="model_checking",
    text="Bounded, framing only. The per-message framing block of Response::send (Content::Stream branch) is extracted VERBATIM from the real source on every run (lib/vf.py //@extract: the lines between "
         "`while let Some(chunk) = stream.next().await {` and `conn.write_all(&chunk).await`) and run on 12 enumerated concrete message sequences (empty message, single line, embedded LF, two messages, empty "
         "then non-empty, field-like content `data: x`, embedded CR, CRLF, `x CR event: y`, and messages of 7, 8 and 9 bytes whose event sizes 0xf / 0x10 / 0x11 straddle the first chunk-size digit boundary): the frames followed by `0 CRLF CRLF` are a valid chunked body (reference reader from RFC 9112 7.1) whose content, "
         "read by an event-stream interpreter written from the WHATWG algorithm, is exactly the produced messages in order with CRLF/CR normalised to LF: none lost, merged, split or duplicated, no event/id/retry "
         "field, no comment or unknown-field line, nothing left undispatched.",
    design_ref="DESIGN.md §9.1, §9.4",
    note="Dropped by the extraction and NOT under contract: the await points of the loop (stream.next(), write_all, flush) and with them every question of pacing / producer schedule, QueueStream, the response "
         "head (Transfer-Encoding: chunked is set by set_stream_raw) and the final zero chunk (appended by the harness as `send` does after the loop). The same contract over SYMBOLIC messages of 1-3 bytes is "
         "written (harness/C17) but needs more than 20 min per shape under CBMC and is not registered, nor are the three sequences whose message ENDS in a line break (`LF`, `ab LF`, `CR`: no answer in 15 min). A genuine defect found by these obligations was repaired (fix: 22dde27, CR inside a message).",
    technique="Kani harness contract on a block extracted verbatim from an async fn (mechanical extraction on every run), enumerated concrete inputs, reference chunked reader + event-stream interpreter as the postcondition",
)

CLAIMED["C10"] = dict(
    category="model_checking",
    text="Bounded, decoded-parts level. From the parts the parser produced to the typed value: Multipart::next composed with DeserializeFilesOrField (SeqAccess, deserialize_option / _map / _str) and "
         "FileDeserializer: for a text field followed by 1..4 files under one name (1-byte symbolic filenames and contents) the files are grouped under that name and reach the target in SUBMISSION order, each with "
         "its own filename, media type and byte-exact content, nothing beyond them, the text field stays text; Option<File> is None for an empty file input, Some(the file) for exactly one, an error for several; a "
         "single File is that file for exactly one and an error otherwise (never undefined behaviour, never one of several); a file part into a text target and a text field into a file target are errors. The parser "
         "itself on decided templates and enumerated concrete bodies: a malformed body without CRLF before the delimiter is refused, one empty text field, one empty file, a file whose content is one of 10 concrete "
         "byte strings (empty, ending in CR, CR, CRLF, containing CRLF or dashes, LF, CR CR) followed by a text field (both parts found, content byte-exact; the content `a--b` is the open finding KF-C10-dashes-boundary-inside-content), and a body with a text field and three files (parts in submission order).",
    design_ref="DESIGN.md §9.2, §9.3",
    note="NOT under a discharged contract: Multipart::parse with symbolic content bytes or several parts (1-3 symbolic content bytes: timeout / out of memory; ), so that `parts` "
         "are in submission order with byte-exact contents is decided only for the enumerated concrete bodies; optional part headers; the derived field dispatch of the target struct (from_bytes::<T>). core::str::from_utf8 and "
         "core::fmt::write (error texts) are stubbed. A genuine defect found by these obligations was repaired (fix: 1d0b724, unwrap_unchecked on an empty file list; earlier 78610a4).",
    technique="Kani harness contracts on the decoded-parts layer (real Multipart::next / SeqAccess / MapAccess code) over enumerated part lists with symbolic contents; parser on concrete templates",
)

NOT_APPLICABLE = {
    "C04": "fang order is the order of side effects of opaque boxed async closures composed at configuration time; the final Node keeps only the composed closures, so no postcondition over a function result can name 'which fangs, in which order' without ghost fields in production structs (DESIGN §4 C04)",
    "C12": "the decision runs through HMAC-SHA2, base64url and serde_json in one function; SHA-2 on symbolic input is out of reach for CBMC and Kani cannot stub the generic trait methods involved (DESIGN §4 C12)",
    "C15": "validity under JSON Schema 2020-12 and agreement of a serde_json document with the routing table are not expressible as a function contract within reach of Kani/Verus (DESIGN §4 C15)",
    "C16": "the subject is a procedural macro (proc-macro crate: no Kani harness possible) and the quantifier is over type definitions (DESIGN §4 C16)",
    "C18": "interleavings of a signal-handler thread with the accept loop over atomics: Kani has no thread support, Verus would need the code rewritten with its atomic-invariant types (a model) (DESIGN §4 C18)",
    "C19": "the served set is defined by a walk of the real file system at registration time inside a closure; Kani has no file-system model (DESIGN §4 C19)",
}

PENDING = "not built yet in this phase (planned per DESIGN.md §4); not claimed until its check exists"
ALL = [f"C{i:02d}" for i in range(1, 21)]


def main():
    checks = []
    for pid, c in CLAIMED.items():
        checks.append(dict(
            property_id=pid,
            quick_cmd=f"bin/check {pid} --tier quick",
            thorough_cmd=f"bin/check {pid} --tier thorough",
            evidence_file=f"evidence/{pid}.json",
            replay_cmd_template=f"bin/check {pid} --replay {{path}}",
            engine="kani-contracts",
            level_claimed=dict(category=c["category"], text=c["text"], design_ref=c["design_ref"]),
            level_note=c["note"],
            technique=c["technique"],
        ))
    na = [dict(property_id=p, reason=NOT_APPLICABLE.get(p, PENDING)) for p in ALL if p not in CLAIMED]
    m = dict(
        version=1,
        setup_cmd="true",
        hooks=dict(
            guard="kani",
            enable="no hook is committed in /repo: on every run lib/vf.py copies /repo's working tree to /var/tmp/ohkami-verif/<id>.<pid>, inserts "
                   "#[cfg_attr(kani, kani::requires/ensures(..))] above anchored fns and appends #[cfg(kani)] harness modules (cfg(kani) is set only by the Kani compiler), "
                   "checks that removing the inserted lines gives back /repo byte for byte, and runs cargo kani there",
            baseline_off_cmd="cd /repo && cargo test --workspace --no-fail-fast --offline",
            source_commits=[],
            add_only=True,
        ),
        engines=[dict(name="kani-contracts", path="lib/vf.py", serves_properties=sorted(CLAIMED),
                      kind_free_text="contract-based deductive verification: Kani 0.68 function contracts / harness contracts on the real crates (CBMC 6.11), "
                                     "Verus for the itoa arithmetic skeleton")],
        checks=checks,
        not_applicable=na,
        notes="exit codes of bin/check: 0 all obligations discharged, 1 violation (VIOLATION line), 2 undecided (lost anchor / timeout / tool limit; never an alarm). See DESIGN.md.",
    )
    json.dump(m, open(os.path.join(VERIF, "MANIFEST.json"), "w"), indent=1)


if __name__ == "__main__":
    main()
