"""C01: unbounded (all lengths) Verus proof of router::util::split_next_section on the text cut from /repo on every run.

Rewrite rules (each asserts its match count; a rule that does not apply => undecided, never an alarm):
 S1 the item from `pub(super) fn split_next_section(` to its matching brace is cut verbatim from ohkami/src/router/util.rs
 S2 the return type gets a name and the postcondition (`ensures split_post(path@, r.0@, r.1@)`)
 S3 `let ptr = path.as_ptr();` is dropped
 S4 `&b'/' == unsafe {path.get_unchecked(i)}` -> `47u8 == path[i]` (Verus then proves i < len: the bounds obligation get_unchecked relies on)
 S5 `std::slice::from_raw_parts(ptr, N)` -> `slice_subrange(path, 0, N)`; `std::slice::from_raw_parts(ptr.add(E), N)` ->
    `slice_subrange(path, E, (E) + (N))` (offset and length expressions kept verbatim; Verus proves both inside the slice, no overflow/underflow)
 S6 the `unsafe {( .. )}` wrapper of the returned tuple is stripped
 S7 the loop `for i in 0..len {` receives its invariant
 S8 `b""` -> `slice_subrange(path, 0, 0)` (the real code returns a static empty slice; only its emptiness is in the contract)
Dropped: raw-pointer provenance (covered, bounded, by the Kani harness c01_split_next_section_contract on the unmodified function).
"""
import os, re, json, subprocess, time, hashlib

RULES = [l.strip() for l in __doc__.splitlines() if re.match(r"\s*S\d ", l)]
PRELUDE = """use vstd::prelude::*;
use vstd::slice::slice_subrange;
verus! {
pub open spec fn split_post(path: Seq<u8>, a: Seq<u8>, b: Seq<u8>) -> bool {
    &&& a + b =~= path
    &&& forall|j: int| 0 <= j < a.len() ==> a[j] != 47u8
    &&& (b.len() == 0 || b[0] == 47u8)
}
"""


class ExtractError(Exception):
    pass


def sub1(pat, rep, s, what, count=1):
    out, n = re.subn(pat, rep, s)
    if n != count:
        raise ExtractError(f"extraction rule did not apply: {what} (matched {n}, expected {count})")
    return out


def extract(text):
    start = text.find("pub(super) fn split_next_section(")
    if start < 0:
        raise ExtractError("extraction rule did not apply: S1 anchor")
    i = text.index("{", text.index("->", start))
    depth, j = 0, i
    while True:
        if text[j] == "{": depth += 1
        elif text[j] == "}":
            depth -= 1
            if depth == 0: break
        j += 1
    item = text[start:j + 1]
    sha = hashlib.sha256(item.encode()).hexdigest()
    b = item.replace("pub(super) fn", "fn", 1)
    b = sub1(r"\)\s*->\s*\(&\[u8\], &\[u8\]\)\s*\{", ") -> (r: (&[u8], &[u8]))\n    ensures split_post(path@, r.0@, r.1@)\n{", b, "S2 signature")
    b = sub1(r"let ptr = path\.as_ptr\(\);\s*", "", b, "S3 ptr")
    b = sub1(r"&b'/' == unsafe \{\s*path\.get_unchecked\((\w+)\)\s*\}", r"47u8 == path[\1]", b, "S4 get_unchecked")
    b = sub1(r"std::slice::from_raw_parts\(ptr\.add\(([^()]*)\),\s*([^(),]*)\)", r"slice_subrange(path, \1, (\1) + (\2))", b, "S5 from_raw_parts(ptr.add)")
    b = sub1(r"std::slice::from_raw_parts\(ptr,\s*([^(),]*)\)", r"slice_subrange(path, 0, \1)", b, "S5 from_raw_parts(ptr)")
    b = sub1(r"return unsafe \{\(", "return (", b, "S6 unsafe open")
    b = sub1(r"\)\}(\s*\}\s*\}\s*;)", r")\1", b, "S6 unsafe close")
    b = sub1(r"for (\w+) in 0\.\.len \{", r"for \1 in 0..len\n        invariant len == path@.len(), forall|j: int| 0 <= j < \1 ==> path@[j] != 47u8,\n    {", b, "S7 loop")
    b = sub1(r'b""', "slice_subrange(path, 0, 0)", b, "S8 empty")
    if "unsafe" in b or "ptr" in b:
        raise ExtractError("extraction rule did not apply: unsafe code left after S3-S6")
    return PRELUDE + b + "\n} // verus!\nfn main() {}\n", sha


def run(scratch, logdir, h_cls):
    t0 = time.time()
    name = "c01_split_next_section_verus"
    h = h_cls(name, "ohkami", ["router::util::split_next_section (safe-slice rewriting S1-S8 of the real text)"],
              ["ensures a ++ b == path", "a contains no '/'", "b is empty or starts with '/'", "every index / sub-slice bound inside the slice, no arithmetic overflow"], strength="proved")
    ev = dict(harness=name, functions_under_contract=h.functions, contract_clauses=h.clauses, strength="proved",
              bound="all byte slices of every length", backend="Verus 0.2026.09.13 / Z3", extraction_rules=RULES)

    def undecided(msg):
        ev["state"] = "undecided"
        return dict(h=h, state="undecided", details=msg, evidence=ev, strength="proved")
    try:
        src, sha = extract(open(os.path.join(scratch, "ohkami/src/router/util.rs")).read())
    except (ExtractError, ValueError, IndexError, OSError) as e:
        return undecided(str(e))
    vfile = os.path.join(logdir, "split_extracted.rs")
    open(vfile, "w").write(src)
    ev["item_sha256"] = sha
    cmd = ["verus", vfile, "--output-json", "--time"]
    try:
        v = subprocess.run(cmd, stdout=subprocess.PIPE, stderr=subprocess.PIPE, text=True, timeout=600, cwd=logdir)
    except subprocess.TimeoutExpired:
        return undecided("verus timed out")
    open(os.path.join(logdir, name + ".log"), "w").write("$ " + " ".join(cmd) + "\n" + v.stdout + "\n" + v.stderr)
    try:
        js = json.loads(v.stdout[v.stdout.index("{"):])
    except Exception:
        return undecided("verus produced no JSON: " + (v.stderr or v.stdout)[-400:])
    vr = js.get("verification-results", {})
    verified, errors = vr.get("verified", 0), vr.get("errors", 0)
    smt = js.get("times-ms", {}).get("smt", {})
    smt = smt.get("total", 0) / 1000.0 if isinstance(smt, dict) else 0
    ev.update(verus_verified=verified, verus_errors=errors, checker_cmd=" ".join(cmd), solver_time_s=smt, wall_s=round(time.time() - t0, 1))
    rec = dict(h=h, evidence=ev, strength="proved", obligations=verified + errors, discharged=verified, solver_time_s=smt, nontrivial=h.clauses,
               samples=[dict(harness=name, obligation="split_next_section postcondition", clause="split_post(path@, r.0@, r.1@)", status="SUCCESS" if errors == 0 else "FAILURE")])
    err = v.stderr or ""
    if vr.get("encountered-vir-error") or (verified == 0 and errors == 0):
        return undecided("verus rejected the extracted text (tool limit, not a refutation): " + err[-600:])
    if errors > 0:
        if "rlimit" in err.lower() or "resource limit" in err.lower() or "timed out" in err.lower():
            return undecided("verus resource limit: " + err[-400:])
        m = re.search(r"error: (.*)", err)
        ev["state"] = "violation"
        rec.update(state="violation", cex_harness="c01_split_next_section_contract",
                   details=[dict(id="verus.split_next_section.postcondition", description="Verus could not prove the contract of the extracted split_next_section: " + (m.group(1)[:200] if m else "see log"), location="ohkami/src/router/util.rs (split_next_section)")])
        rec["verus_stderr"] = err[-3000:]
        return rec
    # vacuity guard: with `ensures false` in place of the contract the same text must FAIL; if it verifies, the injected
    # loop invariant (or an assumption) is inconsistent and the success above means nothing
    cfile = os.path.join(logdir, "split_control_must_fail.rs")
    if src.count("ensures split_post(path@, r.0@, r.1@)") != 1:
        return undecided("vacuity control could not be built")
    open(cfile, "w").write(src.replace("ensures split_post(path@, r.0@, r.1@)", "ensures false"))
    try:
        c = subprocess.run(["verus", cfile, "--output-json"], stdout=subprocess.PIPE, stderr=subprocess.PIPE, text=True, timeout=600, cwd=logdir)
        cj = json.loads(c.stdout[c.stdout.index("{"):]).get("verification-results", {})
    except Exception as e:
        return undecided("vacuity control did not run: " + str(e)[:200])
    ev["vacuity_control"] = dict(file="split_control_must_fail.rs", expected="errors > 0", errors=cj.get("errors", 0), verified=cj.get("verified", 0))
    if cj.get("errors", 0) == 0:
        return undecided("vacuity control `ensures false` verified: the injected invariant is inconsistent; the proof is not trusted")
    ev["state"] = "ok"
    rec["state"] = "ok"
    return rec
