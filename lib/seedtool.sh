#!/bin/sh
# usage: lib/seedtool.sh <seed-id> <worktree> <property> [check args...]
# copies patch.diff + demo from the agent's worktree to seeded/<id>/, applies the patch to a fresh copy of /repo and runs the property's quick check on it
set -e
ID="$1"; WT="$2"; PROP="$3"; shift 3
HERE="$(cd "$(dirname "$0")/.." && pwd)"
mkdir -p "$HERE/seeded/$ID"
cp "$WT/patch.diff" "$HERE/seeded/$ID/patch.diff"
rm -rf "$HERE/seeded/$ID/demo"; cp -r "$WT/demo" "$HERE/seeded/$ID/demo" 2>/dev/null || true
COPY=/var/tmp/ohkami-verif/seed-$ID
rm -rf "$COPY"; mkdir -p "$COPY"
rsync -a --exclude .git --exclude target /repo/ "$COPY/"
( cd "$COPY" && patch -p1 -s < "$HERE/seeded/$ID/patch.diff" )
( cd "$HERE" && VERIF_REPO="$COPY" bin/check "$PROP" "$@" ) > "$HERE/seeded/$ID/check_output.txt" 2>&1 || true
tail -6 "$HERE/seeded/$ID/check_output.txt" | cut -c1-300
rm -rf "$COPY"
